#!/usr/bin/env python3
"""CLI-level check of what the command line does with its flags (the glue above the library API, which neither the
simulated wire nor the HTTP handler tests execute): the binary built from the working tree traces a two-router
namespace topology whose routers have private addresses, with generated command lines (flag subsets, orders,
--flag / --flag=true / --flag=false spellings).

  mode C17 (default): --skip-private-hops must blank every private hop whatever else is on the command line and
                      wherever it stands; without it (or with =false last) the private hops are shown
  mode C19:           --max-ttl / -q / -Q / --port / --proto given in either spelling and any order are executed as
                      stated (number of runs, e2e samples, entries per run, destination port)

env: VERIF_OUT, VERIF_TIER, VERIF_SEED, VERIF_GO, VERIF_REPO, CLI_FLAGS_PROP (C17 | C19)
exit 0 ok / 1 violation / 2 inconclusive
"""
import json
import os
import random
import signal
import subprocess
import sys
import time

os.environ.pop("VERIF_C13_RACE", None)
sys.path.insert(0, os.path.dirname(os.path.abspath(__file__)))
import c13_kernel as k  # noqa: E402

PROP = os.environ.get("CLI_FLAGS_PROP", "C17")
# a binary of its own: other checks build and run theirs at the same time
k.CLI = os.path.join(os.path.dirname(k.CLI), "dt-cli-flags-" + PROP)
NAME = "CliFlags" + PROP
OUT = k.OUT
TIER = k.TIER
SEED = k.SEED


def run_cli(t, args):
    cmd = [k.CLI] + args + [t.dest_addr(False)]
    p = subprocess.run(["ip", "netns", "exec", t.names[0]] + cmd, stdout=subprocess.PIPE, stderr=subprocess.PIPE, text=True, timeout=120)
    doc = None
    if p.returncode == 0:
        try:
            doc = json.loads(p.stdout)
        except Exception:
            doc = None
    return p.returncode, doc, p.stderr[:3000], " ".join(cmd[1:])


def is_private(a):
    return a.startswith("10.") or a.startswith("192.168.") or a.startswith("172.16.")


def gen_c17(rng):
    """a command line and whether redaction is in force at its end (the last occurrence of a flag wins)"""
    skip_forms = ["--skip-private-hops", "--skip-private-hops=true", "--skip-private-hops=false"]
    others = ["--windows-driver=false", "--reverse-dns=false", "--source-public-ip=false", "--ipv6=false", "--verbose=false", "-v=false"]
    args = []
    n_skip = rng.choice([0, 1, 1, 1, 2])
    items = [rng.choice(skip_forms) for _ in range(n_skip)] + rng.sample(others, rng.randint(0, 4))
    rng.shuffle(items)
    want = False
    for it in items:
        if it.startswith("--skip-private-hops"):
            want = not it.endswith("=false")
    base = ["--proto", rng.choice(["udp", "icmp", "tcp"]), "--max-ttl", "4", "--timeout", "200", "-q", "1", "-Q", "0", "--port", "443"]
    # the other flags before, between or after the value flags
    cut = rng.randint(0, len(items))
    args = items[:cut] + base + items[cut:]
    return args, want


def gen_c19(rng):
    proto = rng.choice(["udp", "icmp", "tcp"])
    max_ttl = rng.choice([1, 2, 3, 5, 9])
    q = rng.choice([1, 2, 3])
    e2e = rng.choice([0, 1, 3])
    port = rng.choice([443, 80, 33434])
    pairs = [("--proto", "-P", proto), ("--max-ttl", "-m", str(max_ttl)), ("--traceroute-queries", "-q", str(q)), ("--e2e-queries", "-Q", str(e2e)), ("--port", "-p", str(port)), ("--timeout", None, "200")]
    rng.shuffle(pairs)
    args = []
    for long, short, val in pairs:
        form = rng.choice(["long", "long=", "short"]) if short else rng.choice(["long", "long="])
        if form == "long":
            args += [long, val]
        elif form == "long=":
            args.append("%s=%s" % (long, val))
        else:
            args += [short, val]
    return args, {"proto": proto, "max_ttl": max_ttl, "queries": q, "e2e": e2e, "port": port}


def gen_c07(rng):
    """small ranges, many end-to-end probes, short timeouts: whatever the flags, replies that arrived are in the output"""
    proto = rng.choice(["icmp", "icmp", "icmp", "udp", "tcp"])
    max_ttl = rng.choice([1, 1, 2, 3, 10])
    q = rng.choice([1, 3])
    e2e = rng.choice([0, 1, 5, 8])
    timeout = rng.choice([150, 300, 500])
    args = ["--proto", proto, "--max-ttl", str(max_ttl), "-q", str(q), "-Q", str(e2e), "--port", "443", "--timeout", str(timeout)]
    return args, {"proto": proto, "max_ttl": max_ttl, "queries": q, "e2e": e2e, "port": 443}


def main():
    os.makedirs(OUT, exist_ok=True)
    t0 = time.time()
    try:
        if os.geteuid() != 0:
            raise k.Infra("needs root for network namespaces")
        k.build_cli()
    except k.Infra as e:
        print("harness-infra: %s" % e)
        return 2
    rng = random.Random(SEED * 104729 + int(PROP[1:]))
    n = int(os.environ.get("CLI_FLAGS_CASES", 40 if TIER == "quick" else 300))
    replay_args = None
    if os.environ.get("VERIF_REPLAY"):
        replay_args = json.load(open(os.environ["VERIF_REPLAY"]))["scenario"]
        n = 1
    spec = {"routers": 2, "port": 443, "port_open": True, "tcp_sack_off": False, "silent": [], "max_ttl_delta": 1, "queries": 1, "e2e": 0, "protos": ["udp"], "timeout_ms": 200, "concurrent_cli": False}
    t = k.Topo(900 + {"C17": 0, "C19": 1, "C07": 2, "C16": 4}.get(PROP, 3), spec)
    violations, samples, labels, evals, nontrivial = [], [], {}, 0, 0
    infra = None
    try:
        t.up()
        if PROP == "C16":
            # what the command prints is the result document: it must decode to what was asked, whatever the target
            # looks like (zone identifiers carry a percent sign)
            n = 0
            cases = [("127.0.0.1", []), ("::1", ["--ipv6"]), ("::1%lo", ["--ipv6"]), ("::1%1", ["--ipv6"]), ("[::1%lo]:33434", ["--ipv6"]), (t.dest_addr(False), [])]
            for target, extra in cases:
                for proto in ("udp", "icmp"):
                    cmd = [k.CLI, "--proto", proto, "--max-ttl", "2", "-q", "1", "-Q", "1", "--timeout", "200"] + extra + [target]
                    p = subprocess.run(["ip", "netns", "exec", t.names[0]] + cmd, stdout=subprocess.PIPE, stderr=subprocess.PIPE, text=True, timeout=120)
                    evals += 1
                    nontrivial += 1 if "%" in target else 0
                    labels["target:" + target] = labels.get("target:" + target, 0) + 1
                    bad = None
                    if p.returncode != 0:
                        # a target the tool rejects is no document at all: nothing to decode (and nothing wrong)
                        if len(samples) < 8:
                            samples.append({"command_line": " ".join(cmd[1:]), "rejected": ([l for l in p.stderr.splitlines() if l.startswith("Error")] or [""])[0][:160]})
                        continue
                    try:
                        doc = json.loads(p.stdout)
                        if doc["destination"]["hostname"] != target:
                            bad = "the printed document decodes to hostname %r, the target given was %r" % (doc["destination"]["hostname"], target)
                    except Exception as e:
                        bad = "what the command printed is not a JSON document (%s): %r" % (e, p.stdout[:200])
                    if len(samples) < 8:
                        samples.append({"command_line": " ".join(cmd[1:]), "ok": bad is None})
                    if bad:
                        violations.append({"cmd": " ".join(cmd[1:]), "msg": "%s: %s" % (" ".join(cmd[1:]), bad), "args": cmd[1:], "want": None})
                        break
                if violations:
                    break
        for i in range(n):
            if PROP == "C17":
                args, want = gen_c17(rng)
                if replay_args:
                    args, want = replay_args["args"], replay_args["want"]
                bad = None
                for attempt in range(3):
                    rc, doc, err, cmd = run_cli(t, args)
                    if rc != 0 or not doc:
                        bad = "the CLI failed (rc=%d): %s" % (rc, ([l for l in err.splitlines() if l.startswith("Error")] or err.strip().splitlines() or [""])[0][:300])
                        continue
                    hops = [h for r in doc["traceroute"]["runs"] for h in r["hops"]]
                    shown = [h["ip_address"] for h in hops if h.get("ip_address") and is_private(h["ip_address"])]
                    leaked = [h for h in hops if (h.get("ip_address") and is_private(h["ip_address"])) or (not h.get("ip_address") and (h.get("rtt") or h.get("reachable") or h.get("reverse_dns")))]
                    if want and leaked:
                        bad = "redaction was asked for (the last --skip-private-hops on the command line is not =false) but the output still carries private hops: %s" % json.dumps(leaked[:2])
                        break  # deterministic: what the flags mean does not depend on timing
                    if not want and not shown:
                        bad = "redaction was not asked for but no private router address is shown (the path's routers are %s)" % [t.router_addr(1, False), t.router_addr(2, False)]
                        continue  # may be packet loss: try again
                    bad = None
                    break
                evals += 1
                nontrivial += 1 if (want and len(args) > 13) else 0
                labels["redaction:%s" % want] = labels.get("redaction:%s" % want, 0) + 1
                if len(samples) < 6:
                    samples.append({"command_line": cmd, "redaction_in_force": want, "ok": bad is None})
                if bad:
                    violations.append({"cmd": cmd, "msg": "%s: %s" % (cmd, bad), "args": args, "want": want})
                    break
            else:
                args, want = gen_c19(rng) if PROP == "C19" else gen_c07(rng)
                if replay_args:
                    args, want = replay_args["args"], replay_args["want"]
                bad = None
                for attempt in range(3):
                    rc, doc, err, cmd = run_cli(t, args)
                    if rc != 0 or not doc:
                        bad = "the CLI failed (rc=%d): %s" % (rc, ([l for l in err.splitlines() if l.startswith("Error")] or err.strip().splitlines() or [""])[0][:300])
                        continue
                    runs = doc["traceroute"]["runs"]
                    exp = min(want["max_ttl"], 3)  # two routers, then the destination
                    probs = []
                    if doc.get("protocol") != want["proto"]:
                        probs.append("protocol %r, asked %r" % (doc.get("protocol"), want["proto"]))
                    if len(runs) != want["queries"]:
                        probs.append("%d runs, asked %d" % (len(runs), want["queries"]))
                    n_e2e = len(doc["e2e_probe"].get("rtts") or [])
                    if n_e2e != want["e2e"]:
                        probs.append("%d end-to-end samples, asked %d" % (n_e2e, want["e2e"]))
                    if want["proto"] != "icmp" and doc["destination"].get("port") != want["port"]:
                        probs.append("destination port %r, asked %d" % (doc["destination"].get("port"), want["port"]))
                    hard = list(probs)
                    topo = [t.router_addr(1, False), t.router_addr(2, False), t.dest_addr(False)][:exp]
                    for r in runs:
                        if PROP == "C07" and len(r["hops"]) == exp and [h.get("ip_address") or None for h in r["hops"]] != topo:
                            probs.append("a run reports %s; the routers and the destination answered every probe: %s" % ([h.get("ip_address") or None for h in r["hops"]], topo))
                        if len(r["hops"]) != exp:
                            probs.append("a run with %d entries; last TTL %d on a path of 2 routers + destination gives %d" % (len(r["hops"]), want["max_ttl"], exp))
                    bad = "; ".join(probs) if probs else None
                    if hard or not bad:
                        break
                evals += 1
                nontrivial += 1
                labels["proto:%s" % want["proto"]] = labels.get("proto:%s" % want["proto"], 0) + 1
                if len(samples) < 6:
                    samples.append({"command_line": cmd, "asked": want, "ok": bad is None})
                if bad:
                    violations.append({"cmd": cmd, "msg": "%s: %s" % (cmd, bad), "args": args, "want": want})
                    break
    except k.Infra as e:
        infra = str(e)
    except subprocess.TimeoutExpired as e:
        infra = "timeout: %s" % e
    finally:
        t.down()
    rule = {"C17": "generated command lines for the binary built from the working tree, run in a namespace topology whose two routers have private addresses: 0..2 occurrences of --skip-private-hops (bare, =true, =false) among up to four other boolean flags spelt --flag=false, in random order around the value flags, udp / icmp / tcp; oracle: redaction is in force iff the last --skip-private-hops is not =false: then no hop of the printed document carries a private address, RTT, reachability or names, otherwise the routers' private addresses are shown; non-trivial = redaction in force with other boolean flags on the line",
            "C07": "generated command lines for the binary built from the working tree on a path of two routers and a destination that all answer within microseconds: icmp (mostly), udp, tcp with last TTL 1 / 2 / 3 / 10, 1 or 3 runs, 0..8 end-to-end probes, timeouts 150..500 ms; oracle: the command succeeds and every run lists the routers and the destination that answered (replies that arrived well before any deadline are in the output whatever the combination of flags); non-trivial always",
            "C16": "the binary built from the working tree run against loopback and namespace targets written as plain literals, IPv6 literals with a zone identifier (::1%lo, ::1%1) and a bracketed literal with zone and port, udp and icmp; oracle: whenever the command succeeds, what it printed is one JSON document whose destination.hostname is the target as given; non-trivial = a target with a percent sign",
            "C19": "generated command lines for the binary built from the working tree (protocol, last TTL, runs, end-to-end probes, port and timeout, each in --flag value, --flag=value or short form, in random order) on a path of two routers and a destination; oracle: the printed document has the protocol, the number of runs and end-to-end samples and the destination port that were asked for, and min(last TTL, 3) entries per run; non-trivial always"}[PROP]
    stats = {"prop": PROP, "name": NAME, "evaluations": evals, "distinct_nontrivial": nontrivial, "hashes": [], "extra_distinct": nontrivial, "labels": labels, "samples": samples, "rule": rule,
             "assumptions": ["real kernel and real time in the loop; a missing hop is retried up to 3 times, a wrong flag meaning is not"], "exhaustive": False, "excluded_known": 0, "known_findings_seen": [], "violations": len(violations)}
    if infra and not violations:
        stats["inconclusive"] = infra
    json.dump(stats, open(os.path.join(OUT, "stats-%s-0.json" % NAME), "w"))
    if violations:
        v = violations[0]
        json.dump({"property": PROP, "test": NAME, "scenario": {"args": v["args"], "want": v["want"]}, "diffs": [{"prop": PROP, "sig": "cli-flags", "msg": v["msg"]}]}, open(os.path.join(OUT, "failure-%s-%s-0.json" % (PROP, NAME)), "w"), indent=1)
        print("%s [cli-flags] %s" % (PROP, v["msg"]))
        print("--- FAIL: %s" % NAME)
        return 1
    if infra:
        print("harness-infra: %s" % infra)
        return 2
    print("%s: %d command lines, %.1fs" % (NAME, evals, time.time() - t0))
    return 0


if __name__ == "__main__":
    signal.signal(signal.SIGTERM, lambda *a: sys.exit(2))
    sys.exit(main())
