"""Per-property job table for ./check. Each job is one invocation of the harness test binary.

kind   rapid  : rapid-driven property (checks_<tier> cases per shard, shards_<tier> processes)
       enum   : deterministic enumeration through the same oracle
       fuzz   : native go fuzzing target (thorough tier only)
       script : external script (C13 kernel topologies)
"""

LEVELS = {"C10": "fault_enumeration"}

def rapid(run, quick, thorough, shards=16, **kw):
    d = {"run": "^%s$" % run, "name": run, "kind": "rapid", "checks_quick": quick, "checks_thorough": thorough, "shards_thorough": shards}
    d.update(kw)
    return d

def fuzz(run, secs_thorough="60s", **kw):
    d = {"run": "^%s$" % run, "name": run, "kind": "fuzz", "thorough_only": True, "fuzztime_thorough": secs_thorough, "timeout_thorough": 900}
    d.update(kw)
    return d

def enum(run, **kw):
    d = {"run": "^%s$" % run, "name": run, "kind": "enum"}
    d.update(kw)
    return d

PROPS = {
    "C01": {"jobs": [rapid("TestC01", 1500, 20000), enum("TestC01Sweep"),
                     # attribution under concurrency: sibling runs on one wire (the C11 scenario judged for C01's clause
                     # "replies to another run's probes never create a hop")
                     rapid("TestC11", 400, 2000, name="TestC11(siblings)"),
                     # attribution when a probe's identifier is touched by the zero-checksum handling (1 probe in 65 536):
                     # the search job of C06, whose every hop is also judged against the reference
                     enum("TestC06UDP6ChecksumSearch", name="TestC06UDP6ChecksumSearch(attribution)"),
                     # what the real capture handle hands to the parsers: exactly the frame that arrived
                     enum("TestC01KernelReadExact"),
                     # a run that failed part-way leaves nothing behind for the next run of the process
                     rapid("TestC01AfterFailedRun", 600, 6000)]},
    "C02": {"jobs": [rapid("TestC02", 1500, 15000), enum("TestC02Product"), enum("TestC02KernelLinkHeaders"), rapid("TestC02AfterFailedRun", 400, 4000), enum("TestC02ServerLongRun", thorough_only=True, timeout_thorough=400)]},
    "C03": {"jobs": [rapid("TestC03Protocol", 1500, 10000), rapid("TestC03Engine", 8000, 60000), rapid("TestC03OutOfRange", 3000, 20000), enum("TestC03AllPairs"), enum("TestC03SackHoles"), rapid("TestC03AfterFailedRun", 600, 6000), rapid("TestC03Request", 800, 5000), enum("TestC03KernelLoopbackRuns")]},
    "C04": {"jobs": [rapid("TestC04", 1500, 10000), rapid("TestC04Reuse", 800, 6000), rapid("TestC04AfterFailedRun", 400, 4000), enum("TestC04KernelPaddedReplies")]},
    "C05": {"jobs": [rapid("TestC05", 1500, 15000), rapid("TestC05E2e", 1200, 8000), rapid("TestC05AfterFailedRun", 400, 4000), rapid("TestC05RealTimeStall", 12, 40, shards_thorough=4)]},
    "C07": {"jobs": [rapid("TestC07", 8000, 60000), enum("TestC07Bounded"), enum("TestC07KernelBurst"),
                     # the command line's own deadlines and contexts: replies that arrived are in the output
                     {"kind": "script", "name": "CliFlagsC07", "run": "CliFlagsC07", "cmd": ["python3", "cli_flags.py"], "env": {"CLI_FLAGS_PROP": "C07"}, "timeout_quick": 600, "timeout_thorough": 1800}]},
    "C08": {"jobs": [rapid("TestC08Runs", 800, 5000), rapid("TestC08Engines", 3000, 20000), rapid("TestC08Services", 2000, 10000), rapid("TestC08Request", 1500, 6000), enum("TestC08SharedFetcherRealTime"), enum("TestC08KernelSendError")]},
    "C09": {"jobs": [rapid("TestC09", 3000, 10000), enum("TestC09Truncations"), enum("TestC09TCPOptions"), enum("TestC09KernelFrames")] +
            [fuzz("FuzzC09" + v) for v in ("icmp4", "icmp6", "udp4", "udp6", "tcp", "tcpparis", "sack", "Parser")]},
    "C10": {"jobs": [enum("TestC10Single"), enum("TestC10Paths"), enum("TestC10LateWrite"), enum("TestC10Request"), rapid("TestC10Multi", 2500, 8000),
                     # "the k-th send fails" below the seam: the kernel itself refuses one probe of a real run
                     enum("TestC10KernelSendError"), enum("TestC10KernelFilterNoMem")]},
    "C06": {"jobs": [rapid("TestC06", 1200, 8000), rapid("TestC06Engine", 4000, 30000), enum("TestC06Reuse"), enum("TestC06AllTTLs"), enum("TestC06UDP6ChecksumSearch"), rapid("TestC06Concurrent", 600, 4000), enum("TestC06KernelSink"), enum("TestC06KernelLoopbackRuns")]},
    "C20": {"jobs": [enum("TestC20Table"), rapid("TestC20", 2000, 2000), enum("TestC20ConnectTimeout"),
                     # a SACK failure that is not "SACK unavailable", produced by the kernel: the connection's local address differs from the discovered one
                     {"kind": "script", "name": "C20KernelSplitSrc", "run": "C20KernelSplitSrc", "cmd": ["python3", "c13_kernel.py"], "env": {"VERIF_C13_ONLY": "splitsrc", "VERIF_C13_PROP": "C20"}, "timeout_quick": 600, "timeout_thorough": 1200}]},
    "C11": {"jobs": [rapid("TestC11", 800, 4000), rapid("TestC11Request", 800, 3000), rapid("TestC11Alloc", 500, 3000), enum("TestC11EchoIDs"), enum("TestC11EchoIDsConcurrent"), enum("TestC11AllocWrap")]},
    "C12": {"jobs": [enum("TestC12Classes"),
                     # the drop-all / drain / attach sequence on a real AF_PACKET handle in a private network namespace
                     enum("TestC12KernelAttach"), rapid("TestC12Random", 20000, 300000), rapid("TestC12EndToEnd", 1500, 10000)]},
    "C13": {"jobs": [enum("TestC13KernelSink"), enum("TestC13KernelNonIPFrames"), enum("TestC13KernelPortSpaces"),
                     {"kind": "script", "name": "C13Kernel", "run": "C13Kernel", "cmd": ["python3", "c13_kernel.py"], "timeout_quick": 600, "timeout_thorough": 2400},
                     # "several traceroutes running at once" on the real-socket path: a wrong result there needs an
                     # interleaving of microseconds (two runs attaching their filters at the same moment), which the
                     # topology oracle meets only by luck; the race detector reports the unsynchronised access itself
                     {"kind": "script", "name": "C13KernelRace", "run": "C13KernelRace", "cmd": ["python3", "c13_kernel.py"], "env": {"VERIF_C13_RACE": "1", "VERIF_C13_RACE_PROP": "C13"}, "timeout_quick": 900, "timeout_thorough": 2400}]},
    "C14": {"jobs": [rapid("TestC14", 400, 1500, race=True, env={"GORACE": "halt_on_error=1 exitcode=66"}),
                     rapid("TestC14Fanout", 250, 1000, race=True, env={"GORACE": "halt_on_error=1 exitcode=66"}),
                     # a driver call still in progress when the run's deadline passes: nobody writes to what the caller was handed
                     enum("TestC14EngineOverrun", race=True, env={"GORACE": "halt_on_error=1 exitcode=66"}),
                     rapid("TestC11Alloc", 300, 2000, race=True, name="TestC11Alloc(race)", env={"GORACE": "halt_on_error=1 exitcode=66"}),
                     # documents finished by several goroutines at once (identifier generation is shared state)
                     enum("TestC16ConcurrentIDs", race=True, name="TestC16ConcurrentIDs(race)", env={"GORACE": "halt_on_error=1 exitcode=66", "VERIF_C16_DOCS": "2000"}),
                     rapid("TestC15", 300, 1500, race=True, name="TestC15(race)", thorough_only=True, env={"GORACE": "halt_on_error=1 exitcode=66"}),
                     {"kind": "script", "name": "C13KernelRace", "run": "C13KernelRace", "cmd": ["python3", "c13_kernel.py"], "env": {"VERIF_C13_RACE": "1"}, "timeout_quick": 900, "timeout_thorough": 2400}]},
    "C15": {"jobs": [rapid("TestC15", 2500, 8000), enum("TestC15ServerLongRun", thorough_only=True, timeout_thorough=400)]},
    "C16": {"jobs": [rapid("TestC16", 20000, 120000), enum("TestC16ConcurrentIDs"), enum("TestC16AfterFailedWrite"),
                     {"kind": "script", "name": "CliFlagsC16", "run": "CliFlagsC16", "cmd": ["python3", "cli_flags.py"], "env": {"CLI_FLAGS_PROP": "C16"}, "timeout_quick": 600, "timeout_thorough": 1200}]},
    "C17": {"jobs": [rapid("TestC17Docs", 10000, 60000), rapid("TestC17Request", 1000, 4000),
                     # the command line's own handling of --skip-private-hops (flag order, spellings), on a real path with private routers
                     {"kind": "script", "name": "CliFlagsC17", "run": "CliFlagsC17", "cmd": ["python3", "cli_flags.py"], "env": {"CLI_FLAGS_PROP": "C17"}, "timeout_quick": 600, "timeout_thorough": 1800}]},
    "C18": {"jobs": [rapid("TestC18Enrich", 5000, 30000), rapid("TestC18Cache", 4000, 30000), rapid("TestC18Providers", 4000, 20000), enum("TestC18ProductionClient")]},
    "C19": {"jobs": [rapid("TestC19", 3000, 8000), enum("TestC19Extremes"), enum("TestC19Spellings"), enum("TestC19Defaults"),
                     {"kind": "script", "name": "CliFlagsC19", "run": "CliFlagsC19", "cmd": ["python3", "cli_flags.py"], "env": {"CLI_FLAGS_PROP": "C19"}, "timeout_quick": 600, "timeout_thorough": 1800}]},
}
