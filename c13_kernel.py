#!/usr/bin/env python3
"""C13: Linux kernel conformance. Generated network-namespace topologies (kernel routers, kernel
ICMP/TCP stacks) are traced by the CLI built from /repo's working tree with real raw/AF_PACKET
sockets; the oracle is the topology itself.

env: VERIF_OUT, VERIF_TIER, VERIF_SEED, VERIF_GO, VERIF_REPO, VERIF_REPLAY (optional)
exit 0 ok / 1 violation (failure-<property>-<job>-0.json written) / 2 inconclusive
"""
import json
import os
import random
import signal
import subprocess
import sys
import time
from concurrent.futures import ThreadPoolExecutor

OUT = os.environ.get("VERIF_OUT", "/tmp/verif-out")
TIER = os.environ.get("VERIF_TIER", "quick")
SEED = int(os.environ.get("VERIF_SEED", "1") or "1")
REPO = os.environ.get("VERIF_REPO", "/repo")
VERIF = os.environ.get("VERIF_DIR", os.path.dirname(os.path.abspath(__file__)))
GO = os.environ.get("VERIF_GO", "go")
RACE = os.environ.get("VERIF_C13_RACE") == "1"  # C14 job: the CLI is built with -race; the oracle is "no race report"
CLI = os.path.join(VERIF, ".build" if os.path.realpath(REPO) == "/repo" else ".build-alt-%d" % os.getppid(), "dt-cli-race" if RACE else "dt-cli")
PROP = os.environ.get("VERIF_C13_RACE_PROP", "C14") if RACE else os.environ.get("VERIF_C13_PROP", "C13")
# VERIF_C13_ONLY=splitsrc: only the topology whose client picks different source addresses for UDP and TCP (a job of C20)
ONLY = os.environ.get("VERIF_C13_ONLY", "")
JOBNAME = "C13KernelRace" if RACE else {"splitsrc": "C20KernelSplitSrc"}.get(ONLY, "C13Kernel")
PFX = "vf%d" % os.getpid()


def sh(cmd, check=True, timeout=30):
    p = subprocess.run(cmd, shell=isinstance(cmd, str), stdout=subprocess.PIPE, stderr=subprocess.STDOUT, text=True, timeout=timeout)
    if check and p.returncode != 0:
        raise RuntimeError("command failed: %s\n%s" % (cmd, p.stdout))
    return p


class Infra(Exception):
    pass


def build_cli():
    os.makedirs(os.path.dirname(CLI), exist_ok=True)
    env = dict(os.environ, GOTOOLCHAIN="local", GOFLAGS="-mod=mod", GOPROXY="off")
    env.pop("GOSUMDB", None)
    sum_path = os.path.join(REPO, "go.sum")
    before = open(sum_path, "rb").read() if os.path.exists(sum_path) else None
    cmd = [GO, "build", "-tags", "verif", "-o", CLI, "."]
    if RACE:
        cmd.insert(2, "-race")
    p = subprocess.run(cmd, cwd=REPO, env=env, stdout=subprocess.PIPE, stderr=subprocess.STDOUT, text=True)
    if before is not None and open(sum_path, "rb").read() != before:
        open(sum_path, "wb").write(before)
    if p.returncode != 0:
        raise Infra("CLI build failed:\n" + p.stdout[-3000:])


LIB = os.path.join(os.path.dirname(CLI), "dt-lib")


def build_lib():
    """the library-entry runner (harness/cmd/libtrace): the parameters the command line does not expose"""
    harness = os.path.join(VERIF, "harness")
    env = dict(os.environ, GOTOOLCHAIN="local", GOFLAGS="-mod=mod", GOPROXY="off")
    env.pop("GOSUMDB", None)
    sum_path = os.path.join(REPO, "go.sum")
    before = open(sum_path, "rb").read() if os.path.exists(sum_path) else None
    cmd = [GO, "build", "-tags", "verif", "-o", LIB]
    if os.path.realpath(REPO) != "/repo":
        alt = os.path.join(os.path.dirname(CLI), "alt-lib-go.mod")
        open(alt, "w").write(open(os.path.join(harness, "go.mod")).read().replace("=> /repo", "=> " + os.path.realpath(REPO)))
        open(alt[:-3] + "sum", "w").write(open(os.path.join(harness, "go.sum")).read())
        cmd.append("-modfile=" + alt)
    cmd.append("./cmd/libtrace")
    p = subprocess.run(cmd, cwd=harness, env=env, stdout=subprocess.PIPE, stderr=subprocess.STDOUT, text=True)
    if before is not None and open(sum_path, "rb").read() != before:
        open(sum_path, "wb").write(before)
    if p.returncode != 0:
        raise Infra("library runner build failed:\n" + p.stdout[-3000:])


def sweep_leftovers():
    p = sh("ip netns list", check=False)
    for line in p.stdout.splitlines():
        name = line.split()[0] if line.split() else ""
        if name.startswith("vf") and "_" in name:
            pid = name[2:name.index("_")]
            if pid.isdigit() and not os.path.exists("/proc/" + pid):
                sh("ip netns del " + name, check=False)


class Topo:
    """client - r1 - r2 - ... - rN - dest; link i (0..N) is 10.<net>.i.0/24, left .1, right .2"""

    def __init__(self, idx, spec):
        self.idx = idx
        self.spec = spec
        self.n = spec["routers"]
        self.net = 60 + idx % 150
        self.names = ["%s_%d_c" % (PFX, idx)] + ["%s_%d_r%d" % (PFX, idx, k) for k in range(1, self.n + 1)] + ["%s_%d_d" % (PFX, idx)]
        self.listener = None

    def addr(self, link, side):
        return "10.%d.%d.%d" % (self.net, link, 1 if side == "l" else 2)

    def addr6(self, link, side):
        import ipaddress
        return ipaddress.ip_address("fd00:%x:%x::%d" % (self.net, link, 1 if side == "l" else 2)).compressed

    def router_addr(self, k, v6=False):  # address of router k facing the client
        return self.addr6(k - 1, "r") if v6 else self.addr(k - 1, "r")

    def dest_addr(self, v6=False):
        return self.addr6(self.n, "r") if v6 else self.addr(self.n, "r")

    def ns(self, i, cmd, check=True, timeout=30):
        return sh("ip netns exec %s %s" % (self.names[i], cmd), check=check, timeout=timeout)

    def up(self):
        try:
            for nm in self.names:
                sh("ip netns add " + nm)
                sh("ip netns exec %s ip link set lo up" % nm)
                for k in ("net.ipv4.icmp_ratelimit=0", "net.ipv4.conf.all.rp_filter=0", "net.ipv4.conf.default.rp_filter=0", "net.ipv4.icmp_msgs_per_sec=10000", "net.ipv4.icmp_msgs_burst=10000",
                          "net.ipv6.icmp.ratelimit=0", "net.ipv6.conf.all.disable_ipv6=0", "net.ipv6.conf.default.disable_ipv6=0", "net.ipv6.conf.all.accept_dad=0", "net.ipv6.conf.default.accept_dad=0"):
                    sh("ip netns exec %s sysctl -qw %s" % (nm, k), check=False)
            for link in range(self.n + 1):
                a, b = self.names[link], self.names[link + 1]
                la, lb = "l%dr" % link, "l%dl" % link
                sh("ip link add %s netns %s type veth peer name %s netns %s" % (la, a, lb, b))
                sh("ip netns exec %s ip addr add %s/24 dev %s" % (a, self.addr(link, "l"), la))
                sh("ip netns exec %s ip addr add %s/24 dev %s" % (b, self.addr(link, "r"), lb))
                sh("ip netns exec %s ip link set %s up" % (a, la))
                sh("ip netns exec %s ip link set %s up" % (b, lb))
                sh("ip netns exec %s ip -6 addr add %s/64 dev %s nodad" % (a, self.addr6(link, "l"), la), check=False)
                sh("ip netns exec %s ip -6 addr add %s/64 dev %s nodad" % (b, self.addr6(link, "r"), lb), check=False)
            # routing
            self.ns(0, "ip route add default via %s" % self.addr(0, "r"))
            for k in range(1, self.n + 1):
                self.ns(k, "sysctl -qw net.ipv4.ip_forward=1")
                self.ns(k, "ip route add default via %s" % self.addr(k, "r"))
                for j in range(0, k - 1):
                    self.ns(k, "ip route add 10.%d.%d.0/24 via %s" % (self.net, j, self.addr(k - 1, "l")))
            self.ns(self.n + 1, "ip route add default via %s" % self.addr(self.n, "l"))
            # the same chain over IPv6
            self.ns(0, "ip -6 route add default via %s" % self.addr6(0, "r"), check=False)
            for k in range(1, self.n + 1):
                self.ns(k, "sysctl -qw net.ipv6.conf.all.forwarding=1", check=False)
                self.ns(k, "ip -6 route add default via %s" % self.addr6(k, "r"), check=False)
                for j in range(0, k - 1):
                    self.ns(k, "ip -6 route add fd00:%x:%x::/64 via %s" % (self.net, j, self.addr6(k - 1, "l")), check=False)
            self.ns(self.n + 1, "ip -6 route add default via %s" % self.addr6(self.n, "l"), check=False)
            for k in self.spec.get("silent", []):
                if 1 <= k <= self.n:
                    # suppress only the router's own (locally generated) traffic towards the client
                    self.ns(k, "ip rule add iif lo to 10.%d.0.0/24 blackhole" % self.net)
                    self.ns(k, "ip -6 rule add iif lo to fd00:%x:0::/64 blackhole" % self.net, check=False)
            if self.spec.get("dest_filtered"):
                # the destination silently drops everything it would send back (a filtering firewall): no reply of any kind
                self.ns(self.n + 1, "ip route add blackhole 10.%d.0.0/24" % self.net)
                self.ns(self.n + 1, "ip -6 route add blackhole fd00:%x:0::/64" % self.net, check=False)
            if self.spec.get("split_src"):
                # policy routing keyed on the protocol: UDP leaves from a second address of the client, everything else
                # from the first, so the address discovered with a UDP socket is not the one a TCP connection gets
                self.ns(0, "ip addr add 10.%d.0.3/24 dev l0r" % self.net)
                self.ns(0, "ip rule add ipproto udp table 100")
                self.ns(0, "ip route add default via %s dev l0r src 10.%d.0.3 table 100" % (self.addr(0, "r"), self.net))
            if self.spec.get("tcp_sack_off"):
                self.ns(self.n + 1, "sysctl -qw net.ipv4.tcp_sack=0")
            if self.spec.get("tcp_ts_off"):
                # without timestamps (and without SACK) the target's acknowledgements carry no TCP option at all
                self.ns(self.n + 1, "sysctl -qw net.ipv4.tcp_timestamps=0")
            if self.spec.get("ecn"):
                # the client's kernel asks for ECN on the connections it opens (the SACK variant dials through the
                # kernel): the target's SYN-ACK then carries ECE besides SYN|ACK
                self.ns(0, "sysctl -qw net.ipv4.tcp_ecn=1")
                self.ns(self.n + 1, "sysctl -qw net.ipv4.tcp_ecn=1")
            if self.spec.get("port_open"):
                code = ("import socket,time\ns=socket.socket();s.setsockopt(socket.SOL_SOCKET,socket.SO_REUSEADDR,1);s.bind(('0.0.0.0',%d));s.listen(64)\n"
                        "print('ready',flush=True)\nkeep=[]\nwhile True:\n c,_=s.accept()\n keep.append(c)\n" % self.spec["port"])
                self.listener = subprocess.Popen(["ip", "netns", "exec", self.names[-1], "python3", "-c", code], stdout=subprocess.PIPE, stderr=subprocess.DEVNULL, text=True)
                line = self.listener.stdout.readline()
                if "ready" not in line:
                    raise Infra("listener did not start")
            # warm up ARP along the path
            self.ns(0, "python3 -c \"import socket;s=socket.socket(socket.AF_INET,socket.SOCK_DGRAM);[s.sendto(b'x',('%s',9)) for _ in range(3)]\"" % self.dest_addr(), check=False)
            self.ns(0, "python3 -c \"import socket;s=socket.socket(socket.AF_INET6,socket.SOCK_DGRAM);[s.sendto(b'x',('%s',9)) for _ in range(3)]\"" % self.dest_addr(True), check=False)
            time.sleep(0.3)
        except Infra:
            raise
        except Exception as e:
            raise Infra("cannot build topology: %s" % e)

    def down(self):
        if self.listener:
            try:
                self.listener.kill()
                self.listener.wait(timeout=5)
            except Exception:
                pass
        for nm in self.names:
            sh("ip netns pids %s | xargs -r kill -9" % nm, check=False)
            sh("ip netns del " + nm, check=False)

    def trace(self, proto, method, max_ttl, queries, e2e, timeout_ms):
        v6 = proto.endswith("6")
        cmd = [CLI, "--proto", proto.rstrip("6"), "--max-ttl", str(max_ttl), "--timeout", str(timeout_ms), "-q", str(queries), "-Q", str(e2e), "--port", str(self.spec["port"])]
        if proto == "tcp":
            cmd += ["--tcp-method", method]
        if v6:
            cmd.append("--ipv6")
        lib = self.spec.get("lib")
        if lib:
            # through the library entry point: send delay (the CLI fixes 50 ms) and Paris mode
            cmd[0] = LIB
            cmd[cmd.index("--proto")], cmd[cmd.index("--max-ttl")], cmd[cmd.index("--timeout")], cmd[cmd.index("--port")] = "-proto", "-max-ttl", "-timeout", "-port"
            if "--tcp-method" in cmd:
                cmd[cmd.index("--tcp-method")] = "-tcp-method"
            if v6:
                cmd[cmd.index("--ipv6")] = "-ipv6"
            cmd += ["-delay", str(lib.get("delay_ms", 50))]
            if lib.get("paris") and proto == "tcp" and method == "syn":
                cmd.append("-paris")
        cmd.append(self.dest_addr(v6))
        t0 = time.time()
        env = dict(os.environ, GORACE="halt_on_error=1 exitcode=66")
        p = subprocess.run(["ip", "netns", "exec", self.names[0]] + cmd, stdout=subprocess.PIPE, stderr=subprocess.PIPE, text=True, timeout=180, env=env)
        doc = None
        if p.returncode == 0:
            try:
                doc = json.loads(p.stdout)
            except Exception:
                doc = None
        return {"rc": p.returncode, "doc": doc, "stderr": p.stderr[-1500:], "stderr_full": p.stderr[:6000], "wall": time.time() - t0, "cmd": " ".join(cmd),
                "race": "WARNING: DATA RACE" in p.stderr or p.returncode == 66, "race_report": p.stderr[:2500] if "DATA RACE" in p.stderr else ""}


def expected_hops(t, max_ttl, v6=False):
    hops = []
    silent = set(t.spec.get("silent", []))
    for k in range(1, t.n + 1):
        if k > max_ttl:
            break
        hops.append(None if k in silent else t.router_addr(k, v6))
    reached = max_ttl >= t.n + 1 and not t.spec.get("dest_filtered")
    if reached:
        hops.append(t.dest_addr(v6))
    elif t.spec.get("dest_filtered"):
        hops += [None] * (max_ttl - len(hops))
    return hops, reached


def check_result(t, proto, method, max_ttl, queries, e2e, res):
    """returns list of violation strings"""
    bad = []
    spec = t.spec
    if RACE:
        # the race detector is the only oracle in this mode
        if res.get("race"):
            bad.append("the race detector reported a data race in the CLI running over real sockets:\n" + res.get("race_report", "")[:1800])
        return bad
    sack_like = proto == "tcp" and method in ("sack", "prefer_sack")
    if spec.get("split_src") and sack_like:
        # the SACK attempt connects from another address than the one its probes are built for: that is a failure of its
        # own kind, not "SACK unavailable": sack fails, and prefer_sack reports it instead of falling back to SYN
        if res["rc"] == 0:
            bad.append("method %s returned a trace although the SACK connection's local address differs from the discovered one (a failure that is not 'SACK unavailable' must be reported, not masked by a result)" % method)
        elif "local addr" not in res.get("stderr_full", ""):
            bad.append("method %s failed, but not with the local-address mismatch: %s" % (method, res["stderr"][-300:]))
        return bad
    sack_possible = spec.get("port_open") and not spec.get("tcp_sack_off") and not spec.get("dest_filtered")
    if proto == "tcp" and method == "sack" and not sack_possible:
        if res["rc"] == 0:
            bad.append("method sack succeeded although the target cannot do SACK (port_open=%s tcp_sack_off=%s)" % (spec.get("port_open"), spec.get("tcp_sack_off")))
        return bad
    if res["rc"] != 0 or res["doc"] is None:
        errl = [l for l in res.get("stderr_full", "").splitlines() if l.startswith("Error")][:1]
        bad.append("CLI failed (rc=%s): %s" % (res["rc"], errl[0][:600] if errl else res["stderr"][-600:]))
        return bad
    doc = res["doc"]
    v6 = proto.endswith("6")
    want, reached = expected_hops(t, max_ttl, v6)
    runs = doc["traceroute"]["runs"] or []
    if len(runs) != queries:
        bad.append("%d runs in the document, %d requested" % (len(runs), queries))
    for i, run in enumerate(runs):
        got = [(h.get("ip_address") or None) for h in run["hops"]]
        got = [g if g else None for g in got]
        if got != want:
            bad.append("run %d reports %s, the topology is %s" % (i, got, want))
        for h in run["hops"]:
            if h.get("rtt", 0) < 0:
                bad.append("negative RTT %s" % h)
            if bool(h.get("ip_address")) != bool(h.get("reachable")):
                bad.append("reachable flag inconsistent: %s" % h)
        if run["destination"]["ip_address"] != t.dest_addr(v6):
            bad.append("destination %s != %s" % (run["destination"]["ip_address"], t.dest_addr(v6)))
    rtts = doc["e2e_probe"]["rtts"] or []
    if len(rtts) != e2e:
        bad.append("%d e2e samples, %d requested" % (len(rtts), e2e))
    for x in rtts:
        if x < 0:
            bad.append("negative e2e RTT")
        if reached and x <= 0:
            bad.append("destination is %d hops away (max-ttl %d) but an e2e probe got no answer: %s" % (t.n + 1, max_ttl, rtts))
        if not reached and x > 0:
            bad.append("destination is beyond max-ttl yet an e2e probe reports RTT %s" % x)
    return bad


def gen_spec(rng, idx):
    n = rng.choice([1, 2, 2, 3, 3, 4, 5, 6])
    spec = {"routers": n, "port": rng.choice([80, 443, 8080, 33434]), "port_open": rng.random() < 0.6, "tcp_sack_off": rng.random() < 0.25,
            "silent": sorted(rng.sample(range(1, n + 1), rng.choice([0, 0, 1, 1, 2]) if n >= 2 else 0)) if n >= 2 else [],
            "max_ttl_delta": rng.choice([-1, 0, 1, 1, 2, 3]), "queries": rng.choice([1, 1, 2, 3]), "e2e": rng.choice([0, 1, 3]),
            "protos": rng.sample(["icmp", "udp", "tcp:syn", "tcp:sack", "tcp:prefer_sack", "icmp6", "udp6"], rng.choice([3, 4, 5, 6])), "timeout_ms": rng.choice([300, 500]),
            "concurrent_cli": rng.random() < 0.3}
    spec["tcp_ts_off"] = rng.random() < 0.4
    if spec["tcp_sack_off"]:
        spec["port_open"] = True
    if rng.random() < 0.3:
        spec["ecn"] = True
    if rng.random() < 0.25:
        spec["lib"] = {"delay_ms": rng.choice([0, 0, 1, 7]), "paris": rng.random() < 0.5}
    if rng.random() < 0.2:
        spec["dest_filtered"] = True
        spec["max_ttl_delta"] = rng.choice([1, 2])
    return spec


def run_topology(idx, spec):
    t = Topo(idx, spec)
    out = {"spec": spec, "results": [], "violations": []}
    try:
        t.up()
        max_ttl = max(1, t.n + 1 + spec["max_ttl_delta"])
        jobs = []
        for pm in spec["protos"]:
            proto, _, method = pm.partition(":")
            jobs.append((proto, method or "syn"))

        def one(job):
            proto, method = job
            rep = spec.get("repeat", 1)
            if rep > 1 and not RACE:
                # a rate, not a single run: defects that depend on how fast this path answers (a reply that is back
                # before its probe was recorded) show in a tenth to most of the invocations, packet loss in none or one
                mism, last, good = 0, None, None
                for _ in range(rep):
                    r = t.trace(proto, method, max_ttl, spec["queries"], spec["e2e"], spec["timeout_ms"])
                    b = check_result(t, proto, method, max_ttl, spec["queries"], spec["e2e"], r)
                    if b:
                        mism, last = mism + 1, (r, b)
                    else:
                        good = r
                if mism >= max(3, (3 * rep + 9) // 10):
                    res, bad = last[0], last[1] + ["(the result disagreed with the topology in %d of %d invocations)" % (mism, rep)]
                else:
                    res, bad = (good or last[0]), []
                return {"proto": proto, "method": method, "max_ttl": max_ttl, "rc": res["rc"], "wall": round(res["wall"], 2), "violations": bad, "attempts": rep, "disagreeing_invocations": mism,
                        "hops": [[h.get("ip_address") for h in r["hops"]] for r in (res["doc"] or {}).get("traceroute", {}).get("runs", [])] if res["doc"] else None, "cmd": res["cmd"]}
            res = t.trace(proto, method, max_ttl, spec["queries"], spec["e2e"], spec["timeout_ms"])
            bad = check_result(t, proto, method, max_ttl, spec["queries"], spec["e2e"], res)
            attempts = 1
            # real kernel, real time, shared machine: a single lost or late packet is not a property violation.
            # A mismatch is reported only if it repeats in 3 of 3 attempts (a defect in the tool is deterministic
            # for a given topology; packet loss under load is not). Retries are counted in the evidence.
            cli_failed = (res["rc"] != 0 and not (proto == "tcp" and method == "sack")) or RACE
            # "the target acknowledged without SACK blocks" contradicts a topology whose target has SACK enabled, and
            # neither loss nor load makes a Linux receiver answer an in-window out-of-order byte like that; it is what
            # a probe outside the connection's window gets. It may show in a fraction of the runs only (it needs another
            # connection's SYN-ACK to be captured first), so it is sampled: reported when it shows again in 10 more attempts.
            sack_ok = spec.get("port_open") and not spec.get("tcp_sack_off") and not spec.get("dest_filtered")
            claims_no_sack = lambda r: r["rc"] != 0 and ("no SACK options" in r.get("stderr_full", "") or "missing SACK-permitted" in r.get("stderr_full", ""))
            if proto == "tcp" and method == "sack" and sack_ok and not RACE and (spec["queries"] > 1 or spec["e2e"] > 0) and not bad:
                # several SACK runs to one target at once: whether a run meets a foreign SYN-ACK first is a matter of
                # timing, so a clean first attempt is followed by two more looks
                for _ in range(spec.get("sack_looks", 3) - 1):
                    r2 = t.trace(proto, method, max_ttl, spec["queries"], spec["e2e"], spec["timeout_ms"])
                    attempts += 1
                    if claims_no_sack(r2):
                        res, bad = r2, check_result(t, proto, method, max_ttl, spec["queries"], spec["e2e"], r2)
                        break
            if proto == "tcp" and method == "sack" and sack_ok and not RACE and claims_no_sack(res):
                seen, total = 1, 1
                for _ in range(10):
                    r2 = t.trace(proto, method, max_ttl, spec["queries"], spec["e2e"], max(spec["timeout_ms"], 500))
                    total += 1
                    attempts += 1
                    if claims_no_sack(r2):
                        seen += 1
                if seen >= 2:
                    bad = ["in %d of %d attempts the tool reported that the target does not do SACK (no SACK-permitted in the handshake, or acknowledgements without SACK blocks), but the target's kernel has SACK enabled and the port is open (a handshake taken from another connection's SYN-ACK, or probes outside the connection's window, look like that)" % (seen, total)]
                    cli_failed = True
            # A defect may also be a matter of timing on this path (a reply that is back before the tool has recorded
            # its probe: wrong in a third to a half of the runs). So a mismatch that does not repeat three times in a row
            # is followed by more attempts, up to 8 in all, and reported when at least half of them disagree with the
            # topology; a lost packet or a hiccup of the machine does not come back at that rate.
            if bad and not cli_failed:
                mism, last_bad, last_res = 1, bad, res
                while attempts < 8:
                    attempts += 1
                    time.sleep(0.2)
                    res2 = t.trace(proto, method, max_ttl, spec["queries"], spec["e2e"], max(spec["timeout_ms"], 500))
                    bad2 = check_result(t, proto, method, max_ttl, spec["queries"], spec["e2e"], res2)
                    if bad2:
                        mism += 1
                        last_bad, last_res = bad2, res2
                    else:
                        res = res2
                    if attempts == 3 and mism in (1, 3):
                        break  # it never came back / it came back every time
                    if mism >= 4 or mism + (8 - attempts) < 4:
                        break
                if mism == attempts or mism >= 4:
                    res, bad = last_res, last_bad + ["(the result disagreed with the topology in %d of %d attempts)" % (mism, attempts)]
                else:
                    bad = []
            return {"proto": proto, "method": method, "max_ttl": max_ttl, "rc": res["rc"], "wall": round(res["wall"], 2), "violations": bad, "attempts": attempts,
                    "hops": [[h.get("ip_address") for h in r["hops"]] for r in (res["doc"] or {}).get("traceroute", {}).get("runs", [])] if res["doc"] else None, "cmd": res["cmd"]}
        if spec.get("concurrent_cli"):
            with ThreadPoolExecutor(max_workers=3) as ex:
                rs = list(ex.map(one, jobs))
        else:
            rs = [one(j) for j in jobs]
        out["results"] = rs
        for r in rs:
            for v in r["violations"]:
                out["violations"].append("%s/%s max-ttl %d: %s" % (r["proto"], r["method"], r["max_ttl"], v))
    finally:
        t.down()
    return out


def nontrivial(spec):
    return spec["routers"] >= 2 and (bool(spec["silent"]) or spec.get("ecn") or not spec["port_open"] or spec["tcp_sack_off"] or spec.get("dest_filtered") or spec["queries"] > 1 or spec.get("concurrent_cli"))


def shrink(idx, spec):
    """greedy: keep any simplification that still fails"""
    cur = dict(spec)
    tries = []
    if len(cur["protos"]) > 1:
        for p in cur["protos"]:
            tries.append({"protos": [p]})
    tries += [{"queries": 1}, {"e2e": 0}, {"silent": []}, {"concurrent_cli": False}, {"routers": max(1, cur["routers"] - 1), "silent": [k for k in cur["silent"] if k < cur["routers"]]}, {"max_ttl_delta": 1}]
    for tr in tries[:10]:
        cand = dict(cur)
        cand.update(tr)
        if cand == cur:
            continue
        try:
            r = run_topology(idx + 500, cand)
        except Exception:
            continue
        if r["violations"]:
            cur = cand
    return cur


def main():
    os.makedirs(OUT, exist_ok=True)
    t0 = time.time()
    try:
        if os.geteuid() != 0:
            raise Infra("needs root for network namespaces")
        sweep_leftovers()
        build_cli()
        if not RACE:
            build_lib()
        probe = sh("ip netns add %s_probe && ip netns del %s_probe" % (PFX, PFX), check=False)
        if probe.returncode != 0:
            raise Infra("ip netns unavailable: " + probe.stdout)
    except Infra as e:
        print("harness-infra: %s" % e)
        return 2
    replay = os.environ.get("VERIF_REPLAY")
    specs = []
    if replay:
        ff = json.load(open(replay))
        specs = [ff["scenario"]]
    else:
        rng = random.Random(SEED * 7919 + 13)
        n = 10 if TIER == "quick" else 60
        n = int(os.environ.get("VERIF_C13_TOPOLOGIES", n))
        specs = [gen_spec(rng, i) for i in range(n)]
        # always include the fixed regression shapes
        specs[0] = {"routers": 3, "port": 443, "port_open": True, "tcp_sack_off": False, "silent": [2], "max_ttl_delta": 1, "queries": 3, "e2e": 2, "ecn": True,
                    "protos": ["icmp", "udp", "tcp:syn", "tcp:sack", "tcp:prefer_sack", "icmp6", "udp6"], "timeout_ms": 500, "concurrent_cli": False}
        if len(specs) > 1:
            specs[1] = {"routers": 2, "port": 8080, "port_open": True, "tcp_sack_off": True, "tcp_ts_off": True, "silent": [], "max_ttl_delta": 0, "queries": 1, "e2e": 1,
                        "protos": ["tcp:sack", "tcp:prefer_sack", "tcp:syn", "udp"], "timeout_ms": 400, "concurrent_cli": True}
        if len(specs) > 3:
            specs[3] = {"routers": 2, "port": 443, "port_open": True, "tcp_sack_off": False, "silent": [], "max_ttl_delta": 1, "queries": 1, "e2e": 1, "dest_filtered": True,
                        "protos": ["tcp:prefer_sack", "tcp:sack", "tcp:syn", "udp", "icmp"], "timeout_ms": 300, "concurrent_cli": False}
        if len(specs) > 4:
            # several SACK runs to one target and nothing else going on: every capture handle sees every run's SYN-ACK
            specs[4] = {"routers": 2, "port": 443, "port_open": True, "tcp_sack_off": False, "silent": [], "max_ttl_delta": 1, "queries": 3, "e2e": 0,
                        "protos": ["tcp:sack", "tcp:prefer_sack", "tcp:sack"], "timeout_ms": 500, "concurrent_cli": False, "sack_looks": 10 if TIER == "quick" else 16}
        if len(specs) > 5:
            # SACK runs next to end-to-end SYN probes to the same target: the target's SYN-ACK to an option-less SYN
            # (no SACK-permitted) is captured by every SACK run that is in its handshake at that moment
            specs[5] = {"routers": 2, "port": 443, "port_open": True, "tcp_sack_off": False, "silent": [], "max_ttl_delta": 1, "queries": 3, "e2e": 3,
                        "protos": ["tcp:sack", "tcp:sack", "tcp:prefer_sack"], "timeout_ms": 500, "concurrent_cli": False, "sack_looks": 10 if TIER == "quick" else 16}
        if len(specs) > 6:
            # the parallel drivers on a short, fast path, many times: the kernel answers within microseconds here
            specs[6] = {"routers": 2, "port": 443, "port_open": True, "tcp_sack_off": False, "silent": [], "max_ttl_delta": 1, "queries": 3, "e2e": 0,
                        "protos": ["udp6", "udp", "icmp6", "icmp"], "timeout_ms": 200, "concurrent_cli": False, "repeat": 8 if TIER == "quick" else 20}
        if len(specs) > 7:
            specs[7] = {"routers": 1, "port": 443, "port_open": True, "tcp_sack_off": False, "silent": [], "max_ttl_delta": 1, "queries": 3, "e2e": 0,
                        "protos": ["udp", "udp6", "icmp", "icmp6"], "timeout_ms": 200, "concurrent_cli": False, "repeat": 8 if TIER == "quick" else 20}
        if len(specs) > 8:
            # the library entry point with the send delay the command line never uses: none at all
            specs[8] = {"routers": 3, "port": 443, "port_open": True, "tcp_sack_off": False, "silent": [], "max_ttl_delta": 2, "queries": 2, "e2e": 1, "lib": {"delay_ms": 0, "paris": True},
                        "protos": ["udp", "icmp", "udp6", "icmp6", "tcp:syn", "tcp:sack"], "timeout_ms": 400, "concurrent_cli": False}
        if len(specs) > 2:
            specs[2] = {"routers": 4, "port": 80, "port_open": False, "tcp_sack_off": False, "silent": [1, 3], "max_ttl_delta": -1, "queries": 3, "e2e": 1,
                        "protos": ["tcp:syn", "tcp:prefer_sack", "icmp", "udp"], "timeout_ms": 300, "concurrent_cli": False}
    if ONLY == "splitsrc" and not replay:
        specs = [{"routers": 2, "port": 443, "port_open": True, "tcp_sack_off": False, "silent": [], "max_ttl_delta": 1, "queries": 1, "e2e": 0, "split_src": True,
                  "protos": ["tcp:prefer_sack", "tcp:sack", "tcp:syn", "tcp:prefer_sack"], "timeout_ms": 300, "concurrent_cli": False},
                 {"routers": 1, "port": 8080, "port_open": True, "tcp_sack_off": False, "silent": [], "max_ttl_delta": 1, "queries": 2, "e2e": 1, "split_src": True,
                  "protos": ["tcp:sack", "tcp:prefer_sack"], "timeout_ms": 300, "concurrent_cli": False}]
    if RACE and not replay:
        n = 2 if TIER == "quick" else 8
        rng = random.Random(SEED * 31 + 5)
        specs = []
        for i in range(n):
            specs.append({"routers": rng.choice([2, 3]), "port": 443, "port_open": True, "tcp_sack_off": False, "silent": [], "max_ttl_delta": 1, "queries": 3, "e2e": 3,
                          "protos": ["icmp", "udp", "tcp:syn", "tcp:sack"], "timeout_ms": 400, "concurrent_cli": False})
    results = []
    infra_err = None
    workers = 4
    try:
        with ThreadPoolExecutor(max_workers=workers) as ex:
            futs = [ex.submit(run_topology, i, s) for i, s in enumerate(specs)]
            for f in futs:
                try:
                    results.append(f.result())
                except Infra as e:
                    infra_err = str(e)
                except subprocess.TimeoutExpired as e:
                    infra_err = "timeout: %s" % e
    finally:
        sweep = sh("ip netns list", check=False).stdout
        for line in sweep.splitlines():
            nm = line.split()[0] if line.split() else ""
            if nm.startswith(PFX + "_"):
                sh("ip netns del " + nm, check=False)
    evals = sum(len(r["results"]) for r in results)
    nts = [r for r in results if nontrivial(r["spec"])]
    distinct = len({json.dumps(r["spec"], sort_keys=True) + rr["proto"] + rr["method"] for r in nts for rr in r["results"]})
    failing = [r for r in results if r["violations"]]
    stats = {"prop": PROP, "name": JOBNAME, "evaluations": evals, "distinct_nontrivial": distinct, "hashes": [], "extra_distinct": distinct,
             "labels": {}, "samples": [{"spec": r["spec"], "results": [{k: rr[k] for k in ("proto", "method", "max_ttl", "rc", "hops")} for rr in r["results"]]} for r in results[:3]],
             "rule": "generated topologies (seeded): chains of 1..6 network-namespace routers joined by veth pairs with the kernel's own forwarding/ICMP/TCP, destination with open / closed / SACK-disabled port, a subset of routers with their own ICMP suppressed, max-ttl below/at/above the path length, 1..3 runs and 0..3 e2e probes per invocation, several CLI processes at once; each (topology, protocol/method) CLI invocation of the binary built from the working tree is one evaluation; oracle = the topology itself (router chain then destination, silent routers as empty hops, RTT >= 0, e2e answered iff the destination is within max-ttl, sack fails / prefer_sack falls back when the target cannot do SACK); non-trivial = >= 2 routers and (a silent router, or a closed / SACK-disabled port, or > 1 concurrent run); distinct by (topology spec, protocol)",
             "assumptions": ["real kernel and real time in the loop (timeouts 300-500 ms); IPv4 for every method, IPv6 for icmp and udp; first TTL 1 throughout; a quarter of the topologies (and one fixed one) are traced through the library entry point (harness/cmd/libtrace) with a send delay of 0, 1 or 7 ms and, for tcp syn, Paris mode, which the command line does not expose", "a mismatch counts only if it repeats in 3 of 3 attempts on the same topology, or in at least 4 of 8 attempts, or (two short-path topologies whose invocations are repeated 8 / 20 times) in at least 30 % of the invocations (transient packet loss/latency on a shared machine is not a property violation); retried invocations are counted under label_counts"], "exhaustive": False, "excluded_known": 0, "known_findings_seen": [], "violations": len(failing)}
    for r in results:
        for rr in r["results"]:
            k = "proto:%s/%s" % (rr["proto"], rr["method"])
            stats["labels"][k] = stats["labels"].get(k, 0) + 1
            if rr.get("attempts", 1) > 1:
                stats["labels"]["retried-after-transient-mismatch"] = stats["labels"].get("retried-after-transient-mismatch", 0) + 1
    if infra_err and not failing:
        stats["inconclusive"] = infra_err
    if ONLY == "splitsrc":
        stats["rule"] = "real kernel path, two namespace topologies whose client has policy routing keyed on the protocol (UDP leaves from a second address): the address discovered with a UDP socket differs from the local address of the SACK attempt's TCP connection; each CLI invocation (tcp sack / prefer_sack / syn) is one evaluation; oracle: sack and prefer_sack fail with the local-address mismatch (a SACK failure that is not 'SACK unavailable' is reported, never answered with a SYN trace), syn reports the topology; non-trivial always"
        stats["distinct_nontrivial"] = stats["extra_distinct"] = evals
    if RACE:
        stats["rule"] = "real kernel path under the race detector: the CLI is built with -race and traces generated namespace topologies with 3 concurrent runs + 3 e2e probes per invocation for icmp, udp, tcp syn and tcp sack over real AF_PACKET/raw sockets; oracle: no race report (GORACE halt_on_error); each CLI invocation is one evaluation; non-trivial = >= 2 routers and > 1 concurrent run"
    json.dump(stats, open(os.path.join(OUT, "stats-%s-0.json" % stats["name"]), "w"))
    if failing:
        first = failing[0]
        spec = first["spec"]
        if not replay and not RACE and os.environ.get("VERIF_C13_NOSHRINK") != "1":
            try:
                spec = shrink(0, spec)
            except Exception:
                pass
        json.dump({"property": PROP, "test": stats["name"], "scenario": spec, "diffs": [{"prop": PROP, "sig": "race-report" if RACE else "topology-mismatch", "msg": v} for v in first["violations"][:6]],
                   "results": first["results"]}, open(os.path.join(OUT, "failure-%s-%s-0.json" % (PROP, JOBNAME)), "w"), indent=1)
        for v in first["violations"][:6]:
            print("%s [%s] %s" % (PROP, "race-report" if RACE else "topology-mismatch", v))
        print("--- FAIL: C13Kernel (%d of %d topologies)" % (len(failing), len(results)))
        return 1
    if infra_err:
        print("harness-infra: %s" % infra_err)
        return 2
    print("C13Kernel: %d topologies, %d CLI runs, %.1fs" % (len(results), evals, time.time() - t0))
    return 0


if __name__ == "__main__":
    signal.signal(signal.SIGTERM, lambda *a: sys.exit(2))
    sys.exit(main())
