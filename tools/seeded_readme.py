#!/usr/bin/env python3
"""Regenerates /verif/seeded/README.md from the meta.json files."""
import glob, json, os
rows = []
for mp in sorted(glob.glob("/verif/seeded/*/meta.json")):
    m = json.load(open(mp))
    name = os.path.basename(os.path.dirname(mp))
    checks = ", ".join("%s: %s" % (c, v["verdict"]) for c, v in sorted(m.get("checks", {}).items()))
    hist = m.get("history") or []
    first = ""
    if hist and hist[0].get("checks"):
        first = "; first run: " + ", ".join("%s: %s" % (c, v["verdict"]) for c, v in sorted(hist[0]["checks"].items()))
    rows.append((name, m.get("property"), m.get("summary", ""), m.get("needs_to_manifest", ""), checks + first))
out = ["# Seeded changes (from independent sub-agents) and which checks catch them", "",
       "Each directory holds `patch.diff` (apply with `git -C /repo apply`, undo with `git -C /repo checkout -- .`), the sub-agent's demonstration (`*.go.txt` / `*_test.go.txt`), its `NOTES.md`, and `meta.json` (confirmation in a fresh scratch worktree + verdict of the checks, quick tier unless stated).", "",
       "| name | property | change | needs, to manifest | verdict |", "|---|---|---|---|---|"]
for r in rows:
    out.append("| %s | %s | %s | %s | %s |" % tuple(str(x).replace("|", "\\|").replace("\n", " ") for x in r))
open("/verif/seeded/README.md", "w").write("\n".join(out) + "\n")
print("wrote README with", len(rows), "rows")
