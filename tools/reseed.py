#!/usr/bin/env python3
"""Re-runs every stored seeded change against the check of its own property (quick tier) in a scratch worktree
(VERIF_REPO), without touching /repo or /verif/evidence. Prints one line per seed and a summary.
usage: reseed.py [NAME ...]"""
import glob, json, os, subprocess, sys, time
only = set(sys.argv[1:])
T = "/tmp/reseed-target"
subprocess.run("git -C /repo worktree remove --force %s" % T, shell=True, stdout=subprocess.DEVNULL, stderr=subprocess.DEVNULL)
subprocess.run("git -C /repo worktree add -q --detach %s HEAD" % T, shell=True, check=True)
env = dict(os.environ, VERIF_REPO=T, VERIF_EVIDENCE_DIR="/tmp/reseed-evidence", GOFLAGS="-mod=mod")
env.pop("GOTOOLCHAIN", None)
missed, n = [], 0
try:
    for d in sorted(glob.glob("/verif/seeded/C*-*")):
        name = os.path.basename(d)
        if only and name not in only:
            continue
        prop = name.split("-")[0]
        patch = os.path.join(d, "patch.diff")
        if not os.path.exists(patch):
            continue
        subprocess.run("git -C %s checkout -q -- . && git -C %s clean -qfd" % (T, T), shell=True)
        a = subprocess.run(["git", "-C", T, "apply", patch], stdout=subprocess.PIPE, stderr=subprocess.STDOUT, text=True)
        if a.returncode != 0:
            print(name, "PATCH DOES NOT APPLY", a.stdout[:200]); missed.append(name); continue
        t0 = time.time()
        p = subprocess.run(["/verif/check", prop], cwd="/verif", env=env, stdout=subprocess.PIPE, stderr=subprocess.STDOUT, text=True)
        v = {1: "detected", 0: "MISSED", 2: "inconclusive"}.get(p.returncode, "rc%d" % p.returncode)
        n += 1
        if p.returncode != 1:
            missed.append(name)
        print("%s %s (%.0fs)" % (name, v, time.time() - t0), flush=True)
finally:
    subprocess.run("git -C /repo worktree remove --force %s; rm -rf /tmp/reseed-evidence" % T, shell=True)
print("reseed: %d seeds run, %d not detected: %s" % (n, len(missed), " ".join(missed)))
