#!/bin/bash
# Re-writes every evidence file from a quick run at VERIF_SEED=1 on the tree as it stands (run on the unchanged tree before committing).
cd "$(dirname "$0")/.."
if [ -n "$(git -C /repo status --porcelain)" ]; then echo "/repo is dirty, refusing"; exit 2; fi
rc=0
for p in C01 C02 C03 C04 C05 C06 C07 C08 C09 C10 C11 C12 C13 C14 C15 C16 C17 C18 C19 C20; do
  line=$(VERIF_SEED=1 ./check $p --tier quick 2>&1 | grep -E "^(OK|VIOLATION|INCONCLUSIVE|KNOWN)" | head -2)
  echo "$line"
  case "$line" in OK*) ;; *) rc=1;; esac
done
exit $rc
