#!/bin/bash
# Runs the thorough tier of every property once on the unchanged tree; prints one line per property.
cd "$(dirname "$0")/.."
ids=${@:-C01 C02 C03 C04 C05 C06 C07 C08 C09 C10 C11 C12 C13 C14 C15 C16 C17 C18 C19 C20}
for p in $ids; do
  t0=$(date +%s)
  out=$(VERIF_SEED=${VERIF_SEED:-1} ./check $p --tier thorough 2>&1)
  line=$(echo "$out" | grep -E "^(OK|VIOLATION|INCONCLUSIVE)" | head -3)
  echo "$p $(( $(date +%s) - t0 ))s: $line"
  case "$line" in OK*) ;; *) echo "$out" | grep -E "\] |panic|DATA RACE" | head -8;; esac
done
echo thorough-all-finished
