#!/bin/bash
# Runs every quick check at many seeds on the unchanged tree; prints only non-OK lines.
# usage: tools/soak.sh FIRST_SEED LAST_SEED [IDs...]
first=${1:-100}; last=${2:-105}; shift 2
ids=${@:-C01 C02 C03 C04 C05 C06 C07 C08 C09 C10 C11 C12 C13 C14 C15 C16 C17 C18 C19 C20}
cd "$(dirname "$0")/.."
bad=0
for s in $(seq $first $last); do
  for p in $ids; do
    out=$(VERIF_SEED=$s ./check $p 2>&1)
    line=$(echo "$out" | grep -E "^(OK|VIOLATION|INCONCLUSIVE)" | head -3)
    case "$line" in OK*) ;; *) bad=$((bad+1)); echo "seed=$s $p: $line"; echo "$out" | grep -E "\] " | head -5;; esac
  done
done
echo "soak finished: seeds $first..$last, non-OK results: $bad"
