#!/usr/bin/env python3
"""Applies every mutant of tools/mutants.json to /repo in turn, runs the listed checks (quick tier), reverts.
Writes /verif/seeded/MUTANTS.md. Do not run while anything else uses /repo."""
import json, os, subprocess, sys, shutil, tempfile, time
muts = json.load(open("/verif/tools/mutants.json"))
args = sys.argv[1:]
# --isolated: mutate a scratch worktree and point the checks at it (VERIF_REPO) instead of touching /repo
isolated = "--isolated" in args
only = set(a for a in args if not a.startswith("--"))
ROOT = "/repo"
if isolated:
    ROOT = "/tmp/mutsweep-target"
    subprocess.run("git -C /repo worktree remove --force %s" % ROOT, shell=True, stdout=subprocess.DEVNULL, stderr=subprocess.DEVNULL)
    subprocess.run("git -C /repo worktree add -q --detach %s HEAD" % ROOT, shell=True, check=True)
rows = []
backup = tempfile.mkdtemp(prefix="evidence-")
shutil.copytree("/verif/evidence", backup + "/e")
try:
    for m in muts:
        if only and m["name"] not in only:
            continue
        path = os.path.join(ROOT, m["file"])
        src = open(path).read()
        if m["old"] not in src:
            rows.append((m["name"], m["file"], "DID NOT APPLY", "")); print(m["name"], "did not apply"); continue
        open(path, "w").write(src.replace(m["old"], m["new"], 1))
        try:
            e = dict(os.environ); e.pop("GOTOOLCHAIN", None); e["GOFLAGS"] = "-mod=mod"
            if isolated:
                e["VERIF_REPO"] = ROOT
            b = subprocess.run("cd %s && go build ./... 2>&1 | tail -3" % ROOT, shell=True, stdout=subprocess.PIPE, text=True, env=e)
            if b.stdout.strip():
                rows.append((m["name"], m["file"], "DOES NOT BUILD", b.stdout.strip()[:80])); print(m["name"], "no build"); continue
            verdicts = []
            for c in m["checks"]:
                t0 = time.time()
                p = subprocess.run(["/verif/check", c], stdout=subprocess.PIPE, stderr=subprocess.STDOUT, text=True, env=e)
                v = {1: "detected", 0: "MISSED", 2: "inconclusive"}.get(p.returncode, "rc%d" % p.returncode)
                verdicts.append("%s %s (%.0fs)" % (c, v, time.time() - t0))
            rows.append((m["name"], m["file"], "; ".join(verdicts), ""))
            print(m["name"], verdicts, flush=True)
        finally:
            open(path, "w").write(src)
finally:
    shutil.rmtree("/verif/evidence", ignore_errors=True)
    shutil.copytree(backup + "/e", "/verif/evidence")
    shutil.rmtree(backup, ignore_errors=True)
    subprocess.run(["git", "-C", "/repo", "status", "--short"])
    if isolated:
        subprocess.run("git -C /repo worktree remove --force %s" % ROOT, shell=True)
if not only:
    out = ["# Hand-written mutants (tools/mutants.json) and the verdict of the quick tier", "", "| mutant | file | verdict |", "|---|---|---|"]
    for r in rows:
        out.append("| %s | %s | %s %s |" % r)
    open("/verif/seeded/MUTANTS.md", "w").write("\n".join(out) + "\n")
