#!/usr/bin/env python3
"""Apply a textual mutation to /repo, run checks, always revert. For sensitivity testing only.
usage: trymut.py FILE 'OLD' 'NEW' ID [ID...]    (env VERIF_CHECKS etc. pass through)
"""
import subprocess, sys, os
f, old, new, ids = sys.argv[1], sys.argv[2], sys.argv[3], sys.argv[4:]
path = os.path.join("/repo", f)
src = open(path).read()
if src.count(old) < 1:
    print("MUTATION DID NOT APPLY: pattern not found"); sys.exit(3)
open(path, "w").write(src.replace(old, new, 1))
import shutil, tempfile
evidence_backup = tempfile.mkdtemp(prefix="evidence-")
shutil.copytree("/verif/evidence", evidence_backup + "/e")
try:
    b = subprocess.run(["bash", "-c", "cd /repo && GOFLAGS=-mod=mod go build ./... 2>&1 | tail -5"], stdout=subprocess.PIPE, text=True)
    if b.stdout.strip():
        print("BUILD:", b.stdout)
    for i in ids:
        p = subprocess.run(["/verif/check", i], stdout=subprocess.PIPE, stderr=subprocess.STDOUT, text=True)
        lines = [l for l in p.stdout.splitlines() if l.startswith(("VIOLATION", "OK ", "INCONCLUSIVE", "KNOWN"))]
        detail = [l for l in p.stdout.splitlines() if " [" in l and "] " in l][:2]
        print(i, "rc=%d" % p.returncode, lines, detail)
finally:
    # evidence must describe runs on the unchanged tree: put back what was there before the mutant runs
    shutil.rmtree("/verif/evidence", ignore_errors=True)
    shutil.copytree(evidence_backup + "/e", "/verif/evidence")
    shutil.rmtree(evidence_backup, ignore_errors=True)
    open(path, "w").write(src)
    subprocess.run(["git", "-C", "/repo", "status", "--short"])
