#!/usr/bin/env python3
"""Confirm a sub-agent's seeded change and run the checks against it.

usage: evalseed.py <PROP> <worktree> [--name NAME] [--checks C01,C04,...] [--tier quick]

1. in the scratch worktree: with the change -> build ok, full suite passes, demo FAILS; without -> demo PASSES
2. apply SEEDED/patch.diff to /repo, run the checks, ALWAYS undo (git -C /repo checkout -- .)
3. store /verif/seeded/<NAME>/{patch.diff, demo, meta.json}
"""
import glob
import json
import os
import shutil
import subprocess
import sys
import time


def run(cmd, cwd=None, timeout=1800, env=None):
    e = dict(os.environ)
    e.pop("GOTOOLCHAIN", None)
    e["GOFLAGS"] = "-mod=mod"
    if env:
        e.update(env)
    p = subprocess.run(cmd, cwd=cwd, shell=isinstance(cmd, str), stdout=subprocess.PIPE, stderr=subprocess.STDOUT, text=True, timeout=timeout, env=e)
    return p.returncode, p.stdout


def main():
    args = sys.argv[1:]
    prop, wt = args[0], args[1]
    name, checks, tier = None, None, "quick"
    race = "--race" in args
    i = 2
    while i < len(args):
        if args[i] == "--name":
            name = args[i + 1]; i += 1
        elif args[i] == "--checks":
            checks = args[i + 1].split(","); i += 1
        elif args[i] == "--tier":
            tier = args[i + 1]; i += 1
        i += 1
    name = name or prop
    checks = checks or [prop]
    sd = os.path.join(wt, "SEEDED")
    patch = os.path.join(sd, "patch.diff")
    if not os.path.exists(patch):
        print("no patch.diff in", sd); return 2
    demos = [f for f in glob.glob(os.path.join(sd, "*_test.go"))] + [f for f in glob.glob(os.path.join(sd, "*.go")) if not f.endswith("_test.go")]
    meta = {"property": prop, "name": name, "confirmed": {}, "checks": {}, "at": time.strftime("%Y-%m-%dT%H:%M:%SZ", time.gmtime())}
    # ---- 1. confirm in a fresh scratch worktree ----
    scratch = "/tmp/seeds/confirm-%s" % name
    run("git -C /repo worktree remove --force %s" % scratch)
    rc, out = run("git -C /repo worktree add -q --detach %s HEAD" % scratch)
    if rc != 0:
        print(out); return 2
    try:
        # locate the demo's package from the agent's worktree
        rc, out = run("git status --porcelain", cwd=wt)
        new_tests = [l[3:].strip() for l in out.splitlines() if l.startswith("??") and l.strip().endswith("_test.go")]
        demo_rel = [t for t in new_tests if not t.startswith("SEEDED/")]
        for rel in demo_rel:
            os.makedirs(os.path.dirname(os.path.join(scratch, rel)), exist_ok=True)
            shutil.copy(os.path.join(wt, rel), os.path.join(scratch, rel))
        pkgs = sorted({"./" + os.path.dirname(r) for r in demo_rel}) or ["./..."]
        # without the change: demo passes
        raceflag = ["-race"] if race else []
        rc0, out0 = run(["go", "test", "-vet=off", "-count=1"] + raceflag + pkgs, cwd=scratch)
        meta["confirmed"]["demo_passes_without_change"] = rc0 == 0
        if rc0 != 0:
            print("demo output without the change:", out0[-800:])
        rc, out = run("git apply %s" % patch, cwd=scratch)
        if rc != 0:
            print("patch does not apply:", out); meta["confirmed"]["applies"] = False
        else:
            meta["confirmed"]["applies"] = True
            rcb, outb = run("go build ./...", cwd=scratch)
            meta["confirmed"]["builds"] = rcb == 0
            if rcb != 0:
                print("build output:", outb[-800:])
            rc1, out1 = run(["go", "test", "-vet=off", "-count=1"] + raceflag + pkgs, cwd=scratch)
            meta["confirmed"]["demo_fails_with_change"] = rc1 != 0
            meta["demo_failure_excerpt"] = "\n".join(out1.splitlines()[-25:])[-2500:]
            # the existing suite (without the demo) passes with the change
            for rel in demo_rel:
                os.remove(os.path.join(scratch, rel))
            rcs, outs = run("go test -vet=off -count=1 ./...", cwd=scratch)
            meta["confirmed"]["existing_suite_passes_with_change"] = rcs == 0
            if rcs != 0:
                meta["suite_failure_excerpt"] = outs[-2000:]
    finally:
        run("git -C /repo worktree remove --force %s" % scratch)
    print("confirmed:", json.dumps(meta["confirmed"]))
    ok = all(meta["confirmed"].get(k) for k in ("applies", "builds", "demo_passes_without_change", "demo_fails_with_change", "existing_suite_passes_with_change"))
    # ---- 2. run the checks against it ----
    isolated = "--isolated" in args
    target = "/repo"
    check_env = {}
    if isolated:
        # do not touch /repo (something else is using it): apply in another scratch worktree and point the checks at it
        target = "/tmp/seeds/target-%s" % name
        run("git -C /repo worktree remove --force %s" % target)
        rc, out = run("git -C /repo worktree add -q --detach %s HEAD" % target)
        if rc != 0:
            print(out); return 2
        check_env = {"VERIF_REPO": target}
    rc, out = run("git -C %s status --porcelain" % target)
    if out.strip():
        print(target, "is dirty, refusing:", out); return 2
    rc, out = run("git -C %s apply %s" % (target, patch))
    if rc != 0:
        print("cannot apply to", target, out); return 2
    import tempfile
    evidence_backup = tempfile.mkdtemp(prefix="evidence-")
    shutil.copytree("/verif/evidence", evidence_backup + "/e")
    try:
        for c in checks:
            t0 = time.time()
            rc, out = run(["/verif/check", c, "--tier", tier], cwd="/verif", timeout=3600, env=check_env)
            lines = [l for l in out.splitlines() if l.startswith(("VIOLATION", "OK ", "INCONCLUSIVE", "KNOWN"))]
            detail = [l.strip() for l in out.splitlines() if "] " in l and " [" in l and ("C" in l)][:3]
            meta["checks"][c] = {"rc": rc, "verdict": "detected" if rc == 1 else ("missed" if rc == 0 else "inconclusive"), "lines": lines[:4], "detail": detail, "wall_s": round(time.time() - t0, 1), "tier": tier}
            print(c, meta["checks"][c]["verdict"], lines[:2], detail[:1])
    finally:
        if isolated:
            run("git -C /repo worktree remove --force %s" % target)
            pass  # ./check removes its own .build-alt-<pid>
        else:
            run("git -C /repo checkout -- .")
        # evidence must describe runs on the unchanged tree: put back what was there before the mutant runs
        shutil.rmtree("/verif/evidence", ignore_errors=True)
        shutil.copytree(evidence_backup + "/e", "/verif/evidence")
        shutil.rmtree(evidence_backup, ignore_errors=True)
        rc, out = run("git -C /repo status --porcelain")
        if out.strip():
            print("WARNING /repo still dirty:", out)
    # ---- 3. store ----
    if ok:
        dst = os.path.join("/verif/seeded", name)
        os.makedirs(dst, exist_ok=True)
        shutil.copy(patch, os.path.join(dst, "patch.diff"))
        for f in demos:
            shutil.copy(f, os.path.join(dst, os.path.basename(f) + ".txt" if f.endswith(".go") else os.path.basename(f)))
        if os.path.exists(os.path.join(sd, "NOTES.md")):
            shutil.copy(os.path.join(sd, "NOTES.md"), os.path.join(dst, "NOTES.md"))
        prev = {}
        mp = os.path.join(dst, "meta.json")
        if os.path.exists(mp):
            prev = json.load(open(mp))
            hist = prev.get("history", [])
            hist.append({"at": prev.get("at"), "checks": prev.get("checks")})
            meta["history"] = hist[-5:]
            for k in ("needs_to_manifest", "summary"):
                if k in prev:
                    meta[k] = prev[k]
        json.dump(meta, open(mp, "w"), indent=1)
        print("stored in", dst)
    else:
        print("NOT stored: confirmation failed", meta["confirmed"])
    return 0


if __name__ == "__main__":
    sys.exit(main())
