package harness

// C17: private-hop redaction leaves no private address or derived data.

import (
	"encoding/json"
	"fmt"
	"net"
	"net/netip"
	"testing"

	"github.com/DataDog/datadog-traceroute/result"
	"pgregory.net/rapid"
)

var privatePrefixes = []netip.Prefix{
	netip.MustParsePrefix("10.0.0.0/8"), netip.MustParsePrefix("172.16.0.0/12"), netip.MustParsePrefix("192.168.0.0/16"), netip.MustParsePrefix("fc00::/7"),
}

// isPrivateRef is the independent predicate: RFC 1918 / RFC 4193 on the unmapped address.
func isPrivateRef(ip net.IP) bool {
	a, ok := netip.AddrFromSlice(ip)
	if !ok {
		return false
	}
	a = a.Unmap()
	for _, p := range privatePrefixes {
		if p.Contains(a) {
			return true
		}
	}
	return false
}

// boundary addresses: first, last, one below, one above of every private block; and mapped forms
var boundaryAddrs = []string{
	"v4:9.255.255.255", "v4:10.0.0.0", "v4:10.255.255.255", "v4:11.0.0.0",
	"v4:172.15.255.255", "v4:172.16.0.0", "v4:172.31.255.255", "v4:172.32.0.0",
	"v4:192.167.255.255", "v4:192.168.0.0", "v4:192.168.255.255", "v4:192.169.0.0",
	"v6:fbff:ffff:ffff:ffff:ffff:ffff:ffff:ffff", "v6:fc00::", "v6:fdff:ffff:ffff:ffff:ffff:ffff:ffff:ffff", "v6:fe00::",
	"map:10.0.0.0", "map:10.255.255.255", "map:9.255.255.255", "map:172.16.0.1", "map:172.32.0.0", "map:192.168.1.1", "map:192.169.0.0",
	"v4:8.8.8.8", "v4:100.64.0.1", "v4:169.254.1.1", "v4:127.0.0.1", "v6:2001:db8::1", "v6:fe80::1", "v6:::1", "",
}

type c17Doc struct {
	Runs  [][]docHop `json:"runs"`
	Names bool       `json:"names"` // hops already carry reverse DNS names
	// DestMode: what the run's destination entry holds. "" = a fixed public address; "last-hop" = the address of
	// the run's last (destination) hop, i.e. the target itself answered; "last-hop-16" = the same in 16-byte form
	DestMode string `json:"dest_mode,omitempty"`
}

func checkC17Doc(t *testing.T, c *c17Doc, rec *Recorder) []Diff {
	var ds []Diff
	add := func(sig, f string, a ...any) { ds = append(ds, Diff{"C17", sig, fmt.Sprintf(f, a...)}) }
	build := func() *result.Results {
		d := (&docCase{Runs: c.Runs}).build(nil)
		if c.Names {
			for i := range d.Traceroute.Runs {
				for _, h := range d.Traceroute.Runs[i].Hops {
					if len(h.IPAddress) > 0 {
						h.ReverseDns = []string{"host-" + h.IPAddress.String() + ".example."}
					}
				}
			}
		}
		if c.DestMode != "" {
			for i := range d.Traceroute.Runs {
				r := &d.Traceroute.Runs[i]
				if n := len(r.Hops); n > 0 && len(r.Hops[n-1].IPAddress) > 0 {
					ip := append(net.IP(nil), r.Hops[n-1].IPAddress...)
					if c.DestMode == "last-hop-16" {
						ip = ip.To16()
					}
					r.Destination.IPAddress = ip
				}
			}
		}
		d.Normalize()
		return d
	}
	off, on := build(), build()
	on.RemovePrivateHops()
	nPriv, nPub := 0, 0
	for i := range off.Traceroute.Runs {
		a, b := off.Traceroute.Runs[i].Hops, on.Traceroute.Runs[i].Hops
		if len(a) != len(b) {
			add("hop-count-changed", "run %d has %d hops before and %d after redaction", i, len(a), len(b))
			continue
		}
		for j := range a {
			x, y := a[j], b[j]
			priv := isPrivateRef(x.IPAddress)
			if y.TTL != x.TTL {
				add("ttl-changed", "run %d hop %d TTL %d became %d", i, j, x.TTL, y.TTL)
			}
			if priv {
				nPriv++
				if len(y.IPAddress) != 0 || y.RTT != 0 || y.Reachable || len(y.ReverseDns) != 0 || y.IsDest {
					add("private-data-left", "private hop %s (run %d TTL %d) still carries data after redaction: %+v", x.IPAddress, i, x.TTL, *y)
				}
			} else {
				if len(x.IPAddress) > 0 {
					nPub++
				}
				if !y.IPAddress.Equal(x.IPAddress) || len(y.IPAddress) != len(x.IPAddress) || y.RTT != x.RTT || y.Reachable != x.Reachable || y.IsDest != x.IsDest || fmt.Sprint(y.ReverseDns) != fmt.Sprint(x.ReverseDns) {
					add("public-hop-changed", "non-private hop %v (run %d TTL %d) was altered by redaction: %+v -> %+v", x.IPAddress, i, x.TTL, *x, *y)
				}
			}
		}
	}
	// the serialised output must not contain any private address string
	b, _ := json.Marshal(on.Traceroute)
	var gen struct {
		Runs []struct {
			Hops []map[string]any `json:"hops"`
		} `json:"runs"`
	}
	json.Unmarshal(b, &gen)
	for i, r := range gen.Runs {
		for j, h := range r.Hops {
			if s, _ := h["ip_address"].(string); s != "" {
				if isPrivateRef(net.ParseIP(s)) {
					add("private-in-json", "JSON hop %d/%d carries private address %s", i, j, s)
				}
			}
		}
	}
	rec.Case(scenarioKey(c), nPriv >= 1 && nPub >= 1, c)
	return ds
}

func TestC17Docs(t *testing.T) {
	rec := NewRecorder("C17", "C17Docs", "rapid: result documents whose hop addresses are drawn from every private block boundary (first, last, one below, one above of 10/8, 172.16/12, 192.168/16, fc00::/7), their IPv4-mapped forms, empty hops and public addresses, with and without reverse-DNS names already attached, the run's destination entry either a fixed public address or the address of the run's last hop (a private target that answers); oracle (independent netip.Prefix predicate on the unmapped address): private => entry is {ttl} only, otherwise identical to the un-redacted document, hop count and TTL positions unchanged, no private address in the JSON; non-trivial = >= 1 private and >= 1 public hop")
	RunProp(t, rec, func(rt *rapid.T) *c17Doc {
		c := &c17Doc{Names: rapid.Bool().Draw(rt, "names"), DestMode: oneOf(rt, "dest_mode", "", "last-hop", "last-hop", "last-hop-16")}
		nr := rapid.IntRange(1, 4).Draw(rt, "n_runs")
		for i := 0; i < nr; i++ {
			nh := rapid.IntRange(1, 14).Draw(rt, fmt.Sprintf("r%d_n", i))
			var hops []docHop
			for j := 0; j < nh; j++ {
				h := docHop{Addr: oneOf(rt, fmt.Sprintf("r%d_h%d", i, j), boundaryAddrs...)}
				if h.Addr != "" {
					h.RTT = float64(1 + rapid.IntRange(0, 300).Draw(rt, fmt.Sprintf("r%d_h%d_rtt", i, j)))
					h.Dest = j == nh-1
				}
				hops = append(hops, h)
			}
			c.Runs = append(c.Runs, hops)
		}
		return c
	}, checkC17Doc)
}

// ---- end to end: RunTraceroute and the HTTP handler ----

func unspec(s string) string {
	if len(s) > 3 && (s[:3] == "v4:" || s[:3] == "v6:") {
		return s[3:]
	}
	return ""
}

func checkC17Req(t *testing.T, rq *Request, rec *Recorder) []Diff {
	var ds []Diff
	add := func(sig, f string, a ...any) { ds = append(ds, Diff{"C17", sig, fmt.Sprintf(f, a...)}) }
	run := func(skip bool) (*result.Results, error) {
		r := *rq
		r.P.SkipPrivate = skip
		o := RunRequest(t, &r)
		if o.Panic != "" || o.Deadlock != "" {
			return nil, fmt.Errorf("crash: %s%s", o.Panic, o.Deadlock)
		}
		if o.Err != nil {
			return nil, o.Err
		}
		if r.HTTP {
			var res result.Results
			if err := json.Unmarshal(o.Body, &res); err != nil {
				return nil, err
			}
			return &res, nil
		}
		return o.Res, nil
	}
	off, err1 := run(false)
	on, err2 := run(true)
	if rq.CancelAtUs > 0 && (err1 != nil || err2 != nil) {
		// a cancelled request may fail (the property is about what is returned as a document)
		rec.Case(scenarioKey(rq), false, nil, "other:cancelled-failed")
		return nil
	}
	if err1 != nil || err2 != nil {
		rec.Case(scenarioKey(rq), false, nil, "other:failed")
		return []Diff{{"C09", "run-error", fmt.Sprintf("%v / %v", err1, err2)}}
	}
	if len(off.Traceroute.Runs) != len(on.Traceroute.Runs) {
		add("run-count", "%d runs without and %d with the flag", len(off.Traceroute.Runs), len(on.Traceroute.Runs))
		return ds
	}
	// runs of one request are returned in completion order; all runs of a request see the same scripted world
	nPriv, nPub := 0, 0
	for i := range off.Traceroute.Runs {
		a, b := off.Traceroute.Runs[i].Hops, on.Traceroute.Runs[i].Hops
		if len(a) != len(b) {
			add("hop-count-changed", "run %d: %d hops without and %d with the flag", i, len(a), len(b))
			continue
		}
		for j := range a {
			x, y := a[j], b[j]
			if x.TTL != y.TTL {
				add("ttl-changed", "run %d hop %d TTL %d vs %d", i, j, x.TTL, y.TTL)
			}
			if isPrivateRef(x.IPAddress) {
				nPriv++
				if len(y.IPAddress) != 0 || y.RTT != 0 || y.Reachable || len(y.ReverseDns) != 0 {
					add("private-data-left", "flag on: private hop %s (TTL %d) still carries %+v", x.IPAddress, x.TTL, *y)
				}
			} else {
				if len(x.IPAddress) > 0 {
					nPub++
				}
				if !y.IPAddress.Equal(x.IPAddress) || y.RTT != x.RTT || y.Reachable != x.Reachable || fmt.Sprint(y.ReverseDns) != fmt.Sprint(x.ReverseDns) {
					add("public-hop-changed", "flag on altered non-private hop %v (TTL %d): %+v -> %+v", x.IPAddress, x.TTL, *x, *y)
				}
			}
			if isPrivateRef(x.IPAddress) && (len(x.IPAddress) == 0 || !x.Reachable) {
				add("flag-off-redacted", "flag off but private hop TTL %d is missing data", x.TTL)
			}
		}
	}
	// nothing derived from a private address may be left anywhere in the redacted document: the scripted resolver
	// gives every address a name of its own
	privNames := map[string]string{}
	for _, r := range off.Traceroute.Runs {
		for _, h := range r.Hops {
			if isPrivateRef(h.IPAddress) {
				privNames[ptrName(h.IPAddress.String())] = h.IPAddress.String()
			}
		}
	}
	for i, r := range on.Traceroute.Runs {
		for _, h := range r.Hops {
			for _, n := range h.ReverseDns {
				if a, bad := privNames[n]; bad {
					add("private-name-left", "flag on: run %d hop TTL %d (%v) carries the name %q, which was looked up for the private address %s", i, h.TTL, h.IPAddress, n, a)
				}
			}
		}
	}
	// with the flag off the scripted private routers must be visible
	rec.Case(scenarioKey(rq), nPriv >= 1 && nPub >= 1, rq, fmt.Sprintf("http:%v", rq.HTTP), "protocol:"+rq.P.Protocol)
	return ds
}

func TestC17Request(t *testing.T) {
	rec := NewRecorder("C17", "C17Request", "rapid: RunTraceroute and the HTTP handler over simulated worlds whose routers have boundary private/public addresses (IPv4 and IPv6), skip-private-hops on vs off, reverse DNS on with a scripted resolver, a third of the requests with the caller cancelling while the runs are in flight, a third served after the same path was traced unredacted (names looked up) by the same process; oracle: same predicate on the emitted documents, flag off redacts nothing; non-trivial = >= 1 private and >= 1 public router on the path")
	RunProp(t, rec, func(rt *rapid.T) *Request {
		rq := &Request{HTTP: rapid.Bool().Draw(rt, "http")}
		v6 := rapid.Bool().Draw(rt, "v6")
		rq.P = ReqParams{Hostname: "93.184.216.34", Port: 443, Protocol: oneOf(rt, "proto", "udp", "icmp", "tcp"), MinTTL: 1, MaxTTL: rapid.IntRange(3, 9).Draw(rt, "max"),
			DelayMs: 0, TimeoutMs: 200, Queries: rapid.IntRange(1, 2).Draw(rt, "q"), E2e: 0, ReverseDns: rapid.Bool().Draw(rt, "rdns")}
		if rq.HTTP {
			rq.P.DelayMs = 50
			// a key may come twice with the same value
			rq.P.Repeat = oneOf(rt, "repeat", []string(nil), nil, []string{"skip-private-hops"}, []string{"skip-private-hops", "reverse-dns", "max-ttl"})
			// the flag may be spelt in any way the handler's boolean parser takes
			rq.P.BoolStyle = oneOf(rt, "bool_style", "", "", "digit", "letter", "LETTER", "UPPER", "Title")
		}
		if rq.P.Protocol == "tcp" {
			v6 = false
		}
		if v6 {
			rq.P.Hostname = oneOf(rt, "target6", "2001:db8:ffff::1", "fd12:3456::1")
		} else {
			// the target itself may be private (and answer)
			rq.P.Hostname = oneOf(rt, "target4", "93.184.216.34", "93.184.216.34", "10.20.30.40", "192.168.1.1")
		}
		s := FlowScript{DestDist: oneOf(rt, "dest", 0, rq.P.MaxTTL, rq.P.MaxTTL-1), Default: HopSpec{DelayUs: 3000}, Addrs: map[int]string{}}
		for ttl := 1; ttl <= rq.P.MaxTTL; ttl++ {
			var pool []string
			for _, a := range boundaryAddrs {
				if len(a) > 3 && ((a[:3] == "v6:") == v6) && a[:3] != "map" {
					pool = append(pool, a)
				}
			}
			// every TTL gets an explicit, flow-independent responder so that the runs of one request are interchangeable
			s.Addrs[ttl] = fmt.Sprintf("198.18.0.%d", ttl)
			if v6 {
				s.Addrs[ttl] = fmt.Sprintf("2001:db8:0:1::%x", ttl)
			}
			if x := unspec(oneOf(rt, fmt.Sprintf("addr%d", ttl), pool...)); x != "" && x != "::1" && x != "127.0.0.1" {
				s.Addrs[ttl] = x
			}
		}
		if oneOf(rt, "hole", false, true) {
			s.Hops = map[int]HopSpec{rapid.IntRange(1, rq.P.MaxTTL).Draw(rt, "hole_ttl"): {Silent: true}}
		}
		rq.Scripts = []FlowScript{s}
		// every address has a name of its own, and some addresses have none (the lookup fails): a name in the
		// redacted document can then be traced to the address it was looked up for
		rq.DNSDefault = DNSScript{Names: []string{"router.example."}, PerAddr: true}
		rq.DNS = map[string]DNSScript{}
		for ttl := 1; ttl <= rq.P.MaxTTL; ttl++ {
			if oneOf(rt, fmt.Sprintf("dns_fails%d", ttl), false, false, false, true) && !isPrivateRef(net.ParseIP(s.Addrs[ttl])) {
				rq.DNS[s.Addrs[ttl]] = DNSScript{Err: true, NotFound: ttl%2 == 0}
			}
		}
		// the caller may go away while the runs are in flight; the udp and tcp engines finish anyway, and what is
		// then returned as a success must be redacted like any other document
		if oneOf(rt, "caller_cancels", false, false, true) {
			rq.CancelAtUs = int64(rapid.IntRange(1, 250_000).Draw(rt, "cancel_at_us"))
		}
		// a third of the requests are served after the same path was traced unredacted, with names looked up, by the
		// same process (its caches then know the private routers' names)
		if oneOf(rt, "history", false, false, true) {
			bp := rq.P
			bp.SkipPrivate, bp.ReverseDns, bp.Repeat = false, true, nil
			rq.Before = []ReqParams{bp}
		}
		return rq
	}, checkC17Req)
}
