//go:build verif

package harness

import (
	"fmt"
	"math"
	"sort"
	"testing"

	"pgregory.net/rapid"
)

// TestC05E2e: "the end-to-end probe RTT is the destination hop's RTT, with 0 meaning no answer". Requests with
// end-to-end probes over worlds whose destinations answer after sub-millisecond, fractional-millisecond and
// whole-millisecond delays (or not at all); every e2e probe is a flow of its own on the wire, so the multiset of
// reported samples must equal the multiset of the scripted destination delays of those flows.
func TestC05E2e(t *testing.T) {
	rec := NewRecorder("C05", "C05E2e", "rapid: RunTraceroute and the HTTP handler with 1..6 end-to-end probes (and 0..2 runs) of every protocol over per-flow worlds whose destination answers after 7 us .. 30 ms (sub-millisecond, fractional and whole milliseconds) or never; oracle on the virtual clock: the multiset of e2e samples == the multiset of the destination delays scripted for the single-probe flows on the wire (0 for an unanswered probe), to 1e-6 ms; non-trivial = at least one answered probe with a delay that is not a whole number of milliseconds")
	RunProp(t, rec, func(rt *rapid.T) *Request {
		rq := &Request{HTTP: oneOf(rt, "http", false, false, true)}
		p := &rq.P
		p.Protocol = oneOf(rt, "proto", "udp", "icmp", "tcp")
		p.Hostname = "93.184.216.34"
		if p.Protocol != "tcp" && rapid.Bool().Draw(rt, "v6") {
			p.Hostname = "2001:db8:ffff::1"
		}
		p.Port = 443
		p.MinTTL = 1
		p.MaxTTL = rapid.IntRange(2, 6).Draw(rt, "max")
		p.TimeoutMs = oneOf(rt, "timeout", 60, 200)
		p.DelayMs = 0
		if rq.HTTP {
			p.DelayMs = 50
		}
		p.Queries = rapid.IntRange(0, 2).Draw(rt, "queries")
		p.E2e = rapid.IntRange(1, 6).Draw(rt, "e2e")
		n := rapid.IntRange(1, 4).Draw(rt, "n_scripts")
		for i := 0; i < n; i++ {
			d := oneOf(rt, fmt.Sprintf("s%d_delay_us", i), int64(7), 400, 999, 1000, 1001, 2500, 12345, 30000)
			s := FlowScript{DestDist: oneOf(rt, fmt.Sprintf("s%d_dest", i), 1, p.MaxTTL, p.MaxTTL-1, p.MaxTTL+1), Default: HopSpec{DelayUs: d}}
			if oneOf(rt, fmt.Sprintf("s%d_dest_silent", i), false, false, false, true) && s.DestDist <= p.MaxTTL {
				s.Hops = map[int]HopSpec{p.MaxTTL: {Silent: true}}
			}
			rq.Scripts = append(rq.Scripts, s)
		}
		return rq
	}, func(t *testing.T, rq *Request, rec *Recorder) []Diff {
		o := RunRequest(t, rq)
		p := rq.P
		labels := []string{"protocol:" + p.Protocol, fmt.Sprintf("http:%v", rq.HTTP)}
		if o.Panic != "" || o.Deadlock != "" || o.Wire == nil {
			rec.Case(scenarioKey(rq), false, nil, append(labels, "other:crash")...)
			return []Diff{{"C09", "crash", o.Panic + o.Deadlock}}
		}
		res, err := o.Result()
		if err != nil || res == nil {
			rec.Case(scenarioKey(rq), false, nil, append(labels, "other:failed")...)
			return []Diff{{"C09", "run-error", fmt.Sprint(err)}}
		}
		var ds []Diff
		var want []float64
		fractional := false
		for h, probes := range sinkProbes(o.Wire) {
			// an end-to-end probe is one probe at the last TTL on a sink of its own
			if len(probes) != 1 || int(probes[0].TTL) != p.MaxTTL {
				continue
			}
			fs := o.World.FlowAt(probes[0], h)
			if fs == nil {
				continue
			}
			sc := o.World.script(fs.idx)
			hop := sc.Hop(p.MaxTTL)
			if sc.DestDist > 0 && p.MaxTTL >= sc.DestDist && !hop.Silent {
				want = append(want, float64(hop.DelayUs)/1000)
				if hop.DelayUs%1000 != 0 {
					fractional = true
				}
			} else {
				want = append(want, 0)
			}
		}
		got := append([]float64(nil), res.E2eProbe.RTTs...)
		sort.Float64s(want)
		sort.Float64s(got)
		if len(want) != len(got) {
			ds = append(ds, Diff{"C05", "e2e-count", fmt.Sprintf("%d single-probe flows on the wire, %d end-to-end samples", len(want), len(got))})
		} else {
			for i := range want {
				if math.Abs(want[i]-got[i]) > 1e-6 {
					ds = append(ds, Diff{"C05", "e2e-rtt", fmt.Sprintf("end-to-end RTT samples %v ms differ from the delays after which the destination answered those probes, %v ms (0 = no answer)", got, want)})
					break
				}
			}
		}
		rec.Case(scenarioKey(rq), fractional, map[string]any{"request": rq, "samples_ms": got}, labels...)
		return ds
	})
}
