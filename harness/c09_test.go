package harness

// C09: malformed or hostile inbound bytes never crash or abort a run.

import (
	"encoding/binary"
	"errors"
	"fmt"
	"testing"

	"github.com/DataDog/datadog-traceroute/common"
	"github.com/DataDog/datadog-traceroute/packets"
	"github.com/DataDog/datadog-traceroute/sack"
	"pgregory.net/rapid"
)

func stageLabels(b []byte) []string {
	var ls []string
	ip, err := DecodeIP(b)
	if err != nil {
		return []string{"stage:ip-bad"}
	}
	ls = append(ls, "stage:ip-ok")
	switch {
	case !ip.V6 && ip.Proto == ProtoICMP, ip.V6 && ip.Proto == ProtoICMPv6:
		if _, err := DecodeICMP(ip.Payload); err == nil {
			ls = append(ls, "stage:icmp-ok")
		}
	case ip.Proto == ProtoTCP:
		if _, err := DecodeTCP(ip.Payload); err == nil {
			ls = append(ls, "stage:tcp-ok")
		}
	}
	if StructurallyValid(b) {
		ls = append(ls, "stage:structurally-valid")
	}
	return ls
}

func checkC09(t *testing.T, sc *Scenario, rec *Recorder) []Diff {
	o := RunScenario(t, sc)
	labels := []string{"variant:" + sc.Variant}
	if o.Panic != "" || o.Deadlock != "" {
		rec.Case(scenarioKey(sc), true, nil, append(labels, "crash")...)
		return []Diff{{"C09", "crash", "hostile bytes crashed or wedged the run: " + o.Panic + o.Deadlock}}
	}
	if o.Wire == nil {
		return nil
	}
	// what did the capture handle actually hand to the tool?
	rawRead, validRead, permitted, onTuple, noBlockOnTuple, synReplaced := 0, 0, false, false, false, false
	genuine := map[string]bool{}
	for _, p := range o.Wire.all {
		if p.tag.Class == "genuine" || p.tag.Class == "handshake" {
			genuine[string(p.data)] = true
		}
	}
	local, target := "", ""
	var lport, tport uint16
	if s := o.Wire.Sends(0); len(s) > 0 && s[0].Probe != nil {
		local, target = s[0].Probe.IP.Src.String(), s[0].Probe.IP.Dst.String()
		lport, tport = s[0].Probe.SPort, s[0].Probe.DPort
	} else if o.World.Sack != nil && len(o.World.Sack.Remotes) > 0 {
		r := o.World.Sack.Remotes[0]
		local, lport = r.Addr().String(), r.Port()
		target, tport = o.World.Sack.Addr.Addr().String(), o.World.Sack.Addr.Port()
	}
	seenStage := map[string]bool{}
	for _, e := range o.Wire.Reads(0) {
		if e.Tag.Class != "raw" {
			continue
		}
		if genuine[string(e.Data)] {
			validRead++ // a no-op mutation: byte-identical to a genuine reply, so it may legitimately be used
			continue
		}
		rawRead++
		for _, l := range stageLabels(e.Data) {
			if !seenStage[l] {
				seenStage[l] = true
				labels = append(labels, l)
			}
		}
		if StructurallyValid(e.Data) {
			validRead++
		}
		if sc.Variant == "sack" {
			// any TCP segment on the probed connection's tuple: the target "acknowledging on the probed connection"
			// (possibly without usable SACK blocks) or a SYN-ACK indistinguishable from the target's own
			if ip, err := lenientIP(e.Data); err == nil && ip.Proto == ProtoTCP && ip.Src.String() == target && ip.Dst.String() == local && len(ip.Payload) >= 20 {
				if binary.BigEndian.Uint16(ip.Payload[0:]) == tport && binary.BigEndian.Uint16(ip.Payload[2:]) == lport {
					onTuple = true
					if ip.Payload[13]&TCPSyn != 0 && !hasCleanSackCapability(ip.Payload) {
						synReplaced = true
					}
					if !hasCleanSackCapability(ip.Payload) {
						noBlockOnTuple = true
					}
				}
			}
		}
	}
	// The SACK-specific permitted end: the target "acknowledges on the probed connection without SACK
	// blocks", which the tool reports as NotSupportedError. A hostile segment on the connection's own
	// tuple is indistinguishable from the target's, so that outcome is accepted for it; any other error
	// class (the tool noticed the packet is malformed and aborted instead of skipping it) is not.
	// It is only accepted when such a segment really lacked a usable block: a segment whose option list decodes
	// cleanly and holds a SACK option with at least one complete block is a selective acknowledgement, and
	// "SACK not supported" is not a permitted answer to it (the complete blocks are usable, stray bytes are not).
	var nse *sack.NotSupportedError
	permitted = onTuple && noBlockOnTuple && o.Err != nil && errors.As(o.Err, &nse)
	nt := rawRead > 0
	var ds []Diff
	// probes that do not belong to the connection's own handshake (sequence numbers, timestamps): fine when a
	// well-formed hostile SYN-ACK on the tuple was read (it may replace the handshake), a changed run otherwise
	if o.World != nil && len(o.World.Problems) > 0 && !synReplaced {
		ds = append(ds, Diff{"C09", "handshake-changed", fmt.Sprintf("malformed packets changed what the run took from its handshake: %s", o.World.Problems[0])})
	}
	if o.Err != nil || o.Run == nil {
		switch {
		case permitted:
			labels = append(labels, "sack-well-formed-segment-on-connection(permitted end)")
		default:
			ds = append(ds, Diff{"C09", "abort", fmt.Sprintf("run aborted by inbound bytes (%d hostile packets read, %d of them structurally valid): %v", rawRead, validRead, o.Err)})
		}
		rec.Case(scenarioKey(sc), nt, map[string]any{"scenario": sc, "err": fmt.Sprint(o.Err)}, labels...)
		return ds
	}
	// differential against the same scenario without the hostile packets
	clean := *sc
	clean.Muts = nil
	o2 := RunScenario(t, &clean)
	if o2.Err != nil || o2.Run == nil {
		rec.Case(scenarioKey(sc), false, nil, append(labels, "baseline-failed")...)
		return nil
	}
	ref1, _ := Reference(sc, o, 0)
	ref2, _ := Reference(&clean, o2, 0)
	if d := hopsEqual(o, o2, ref1, ref2); d != "" || len(o.Run.Hops) != len(o2.Run.Hops) && len(ref1) == len(ref2) {
		if validRead == 0 && !onTuple {
			ds = append(ds, Diff{"C09", "result-changed", fmt.Sprintf("malformed packets (none structurally valid) changed the result: %s (%d vs %d hops)", d, len(o.Run.Hops), len(o2.Run.Hops))})
		} else {
			labels = append(labels, "diff-with-structurally-valid-packet(not asserted)")
		}
	}
	rec.Case(scenarioKey(sc), nt, map[string]any{"scenario": sc, "hostile_read": rawRead}, labels...)
	return ds
}

var mutOps = []string{"tcpopts", "truncate", "flip", "set", "insert", "delete", "extend", "ihl", "totlen", "version", "dataoff", "proto", "l4set", "innerset", "raw"}

func genMuts(t *rapid.T, sc *Scenario, max int) []MutSpec {
	n := rapid.IntRange(1, max).Draw(t, "n_muts")
	var out []MutSpec
	for i := 0; i < n; i++ {
		lo := sc.MinTTL
		if sc.Variant == "sack" {
			lo = sc.MinTTL - 1
		}
		a := rapid.IntRange(lo, sc.MaxTTL).Draw(t, fmt.Sprintf("m%d_anchor", i))
		if a < sc.MinTTL {
			a = 0
		}
		m := MutSpec{Anchor: a, DelayUs: oneOf(t, fmt.Sprintf("m%d_delay", i), int64(0), 1, 500, 3000, 20000)}
		k := rapid.IntRange(1, 3).Draw(t, fmt.Sprintf("m%d_nops", i))
		for j := 0; j < k; j++ {
			o := MutOp{Op: oneOf(t, fmt.Sprintf("m%d_%d_op", i, j), mutOps...)}
			o.Off = rapid.IntRange(0, 255).Draw(t, fmt.Sprintf("m%d_%d_off", i, j))
			o.Val = oneOf(t, fmt.Sprintf("m%d_%d_valsel", i, j), 0, 1, 4, 5, 6, 15, 0x40, 0x45, 0x60, 0x7f, 0x80, 0xff, -1)
			if o.Val < 0 {
				o.Val = rapid.IntRange(0, 65535).Draw(t, fmt.Sprintf("m%d_%d_val", i, j))
			}
			o.N = rapid.IntRange(0, 2200).Draw(t, fmt.Sprintf("m%d_%d_n", i, j))
			if o.Op == "tcpopts" {
				o.Raw = genTCPOptions(t, fmt.Sprintf("m%d_%d_opt", i, j))
			}
			if o.Op == "raw" {
				o.Raw = rapid.SliceOfN(rapid.Byte(), 0, 80).Draw(t, fmt.Sprintf("m%d_%d_raw", i, j))
				if len(o.Raw) > 0 && rapid.Bool().Draw(t, fmt.Sprintf("m%d_%d_rawver", i, j)) {
					o.Raw[0] = oneOf(t, fmt.Sprintf("m%d_%d_rawb0", i, j), byte(0x45), 0x46, 0x4f, 0x60, 0x40, 0x50)
				}
			}
			m.Ops = append(m.Ops, o)
		}
		out = append(out, m)
	}
	return out
}

func TestC09(t *testing.T) {
	rec := NewRecorder("C09", "C09", "rapid, structure-aware: 1..6 hostile packets derived from the genuine replies of the running scenario (truncate/flip/set/insert/delete/extend up to 2200 bytes, corrupt IHL, total length, version, TCP data offset, protocol, bytes of the transport header and of the quoted datagram, or arbitrary bytes) injected at a drawn instant of a run of every variant (SACK: also against the handshake SYN-ACK); oracle: no panic/deadlock, run succeeds, hops equal the noise-free baseline unless a hostile packet the independent codec judges structurally valid was read; the SACK exception (well-formed segment on the probed connection) is recognised by the model; non-trivial = a hostile packet not byte-identical to a genuine reply was returned by Read; distinct by scenario hash")
	RunProp(t, rec, func(rt *rapid.T) *Scenario {
		sc := GenScenario(rt, GenOpts{Forms: true, MaxSpan: 6, SmallTimes: true, OwnWindow: true})
		sc.Muts = genMuts(rt, sc, 6)
		return sc
	}, checkC09)
}

func baseC09Scenario(v string) *Scenario {
	sc := &Scenario{Variant: v, Strict: true, MinTTL: 1, MaxTTL: 3, TimeoutMs: 60, DelayMs: 2, PollMs: 10, Target: "93.184.216.34", Port: 443,
		EchoBase: 7, PktIDBase: 0x100, SeqMode: "fixed", SeqBase: 0x01020304,
		Script: FlowScript{DestDist: 3, Default: HopSpec{DelayUs: 4000}},
		Sack:   SackCfg{Permit: true, TS: true, ClientNxt: 0x10203040, ServerISN: 0x0a0b0c0d, SynAckUs: 1000}}
	if sc.IsV6() {
		sc.Target = "2001:db8:ffff::1"
	}
	if v == "sack" {
		sc.Target, sc.Port = "127.9.8.7", 0
	}
	return sc
}

// TestC09Truncations: every truncation length of every genuine reply form, for every variant.
func TestC09Truncations(t *testing.T) {
	rec := NewRecorder("C09", "C09Truncations", "enumeration: every truncation length 0..220 of the genuine reply (router reply with min/full/RFC4884 quote and outer options, destination reply, SACK handshake SYN-ACK) for every variant; exhaustive over that product; same oracle")
	rec.Exhaustive = true
	RunCases(t, rec, func(yield func(*Scenario) bool) {
		for _, v := range AllVariants {
			for _, q := range []string{"min", "full", "ext", "ext0", "ext2"} {
				anchors := []int{1, 3}
				if v == "sack" {
					anchors = []int{0, 1, 3}
				}
				for _, anchor := range anchors {
					if anchor != 1 && q != "min" {
						continue
					}
					for n := 0; n <= 220; n++ {
						sc := baseC09Scenario(v)
						sc.Script.Default.Form = FormSpec{Quote: q}
						if !sc.IsV6() && q == "full" {
							sc.Script.Default.Form.OuterOpts = 2
						}
						sc.Muts = []MutSpec{{Anchor: anchor, DelayUs: 100, Ops: []MutOp{{Op: "truncate", N: n}}}}
						if !yield(sc) {
							return
						}
					}
				}
			}
		}
	}, checkC09)
}

// ---- native fuzz targets (thorough tier) ----

func fuzzVariant(f *testing.F, v string) {
	f.Add([]byte{0, 0, 0, 0, 1, 4, 0, 0})                                  // truncate
	f.Add([]byte{1, 1, 1, 0, 7, 0, 15, 0})                                 // IHL 15
	f.Add([]byte{0, 0, 0, 0, 0, 0x45, 0, 0, 4})                            // raw 4 bytes
	f.Add([]byte{0, 2, 0, 1, 8, 0, 0xff, 0xff})                            // total length 65535
	f.Add([]byte{2, 0, 0, 2, 10, 0, 0, 0, 12, 20, 1, 0})                   // data offset 0 + l4set
	f.Add([]byte{0, 1, 0, 0, 0, 0x60, 0, 0, 0, 0x3a, 0, 0, 0, 0, 0, 0, 0}) // raw ipv6-ish
	f.Add([]byte{0, 0, 0, 1, 13, 0, 0x0f, 0})                              // inner IHL
	f.Fuzz(func(t *testing.T, data []byte) {
		if len(data) > 1500 {
			return
		}
		sc := baseC09Scenario(v)
		sc.Muts = DecodeFuzzMuts(data, sc.MinTTL, sc.MaxTTL, v == "sack")
		if len(sc.Muts) == 0 {
			return
		}
		rec := fuzzRecorder("C09Fuzz" + v)
		ds := filterDiffs("C09", checkC09(t, sc, rec), rec)
		if len(ds) > 0 {
			writeFailure("C09", "TestC09", sc, ds)
			t.Fatalf("C09 violated: %v", ds)
		}
	})
}

func FuzzC09icmp4(f *testing.F)    { fuzzVariant(f, "icmp4") }
func FuzzC09icmp6(f *testing.F)    { fuzzVariant(f, "icmp6") }
func FuzzC09udp4(f *testing.F)     { fuzzVariant(f, "udp4") }
func FuzzC09udp6(f *testing.F)     { fuzzVariant(f, "udp6") }
func FuzzC09tcp(f *testing.F)      { fuzzVariant(f, "tcp") }
func FuzzC09tcpparis(f *testing.F) { fuzzVariant(f, "tcp-paris") }
func FuzzC09sack(f *testing.F)     { fuzzVariant(f, "sack") }

// FuzzC09Parser: the frame parser alone, for depth. Any error must be of a retryable class, no accessor may panic.
func FuzzC09Parser(f *testing.F) {
	f.Add([]byte{0x45, 0, 0, 20})
	f.Add([]byte{0x4f, 0, 0, 60, 0, 0, 0, 0, 64, 1, 0, 0, 1, 2, 3, 4, 5, 6, 7, 8})
	f.Add([]byte{0x60, 0, 0, 0, 0, 8, 58, 64})
	f.Fuzz(func(t *testing.T, data []byte) {
		if len(data) == 0 || len(data) > 1024 {
			return
		}
		rec := fuzzRecorder("C09FuzzParser")
		p := packets.NewFrameParser()
		err := p.Parse(data)
		rec.Case(string(data), true, nil)
		if err != nil {
			if !common.CheckProbeRetryable("fuzz", err) {
				sc := baseC09Scenario("icmp4")
				if data[0]>>4 == 6 {
					sc = baseC09Scenario("icmp6")
				}
				sc.Muts = []MutSpec{{Anchor: 1, Ops: []MutOp{{Op: "raw", Raw: data}}}}
				d := []Diff{{"C09", "parser-fatal", fmt.Sprintf("FrameParser.Parse returned a non-retryable error for %d bytes (% x): %v", len(data), data, err)}}
				if len(filterDiffs("C09", d, rec)) > 0 {
					writeFailure("C09", "TestC09", sc, d)
					t.Fatalf("%v", d)
				}
			}
			return
		}
		_, _ = p.GetIPPair()
		_ = p.IsTTLExceeded()
		_ = p.IsDestinationUnreachable()
		if _, err := p.GetICMPInfo(); err != nil {
			var bp *common.BadPacketError
			_ = errors.As(err, &bp)
		}
	})
}

// genTCPOptions draws an option block from a small grammar: known kinds with right and wrong lengths.
func genTCPOptions(t *rapid.T, label string) []byte {
	var out []byte
	n := rapid.IntRange(0, 6).Draw(t, label+"_n")
	for i := 0; i < n; i++ {
		kind := oneOf(t, fmt.Sprintf("%s_%d_kind", label, i), 0, 1, 1, 2, 3, 4, 5, 8, 8, 5, 30, 254)
		if kind == 0 || kind == 1 {
			out = append(out, byte(kind))
			continue
		}
		l := oneOf(t, fmt.Sprintf("%s_%d_len", label, i), 0, 1, 2, 3, 4, 6, 9, 10, 12, 18, 26, 34, 40)
		out = append(out, byte(kind), byte(l))
		for k := 2; k < l; k++ {
			out = append(out, byte(0x10*i+k))
		}
	}
	return out
}

// TestC09TCPOptions enumerates option kinds x declared lengths x positions on the SACK handshake SYN-ACK
// and on the SACK duplicate ACK.
// hasCleanSackCapability says that a segment on the probed connection's tuple does NOT explain a "SACK not
// supported" outcome. What does explain it: a well-formed SYN-ACK (indistinguishable from the target's own, it
// may replace the handshake altogether: other sequence numbers, no SACK-permitted), or a well-formed other
// segment without a complete SACK block (the target acknowledging without blocks). What does not: a segment
// whose option list does not decode (the tool must skip it as a bad packet), a SYN-ACK whose timestamp option
// is too short to hold both values (malformed: skipped, the run waits for a well-formed one), a segment that carries a
// complete SACK block.
func hasCleanSackCapability(seg []byte) bool {
	if len(seg) < 20 {
		return true
	}
	doff := int(seg[12]>>4) * 4
	if doff < 20 || doff > len(seg) {
		return true
	}
	opts, err := ParseTCPOptions(seg[20:doff])
	if err != nil {
		return true
	}
	if seg[13]&TCPSyn != 0 {
		for _, o := range opts {
			if o.Kind == 8 && len(o.Data) < 8 {
				return true
			}
		}
		return false
	}
	for _, o := range opts {
		if o.Kind == 5 && len(o.Data) >= 8 {
			return true
		}
	}
	return false
}

func TestC09TCPOptions(t *testing.T) {
	rec := NewRecorder("C09", "C09TCPOptions", "enumeration: TCP option kind in {2,3,4,5,8,30} x declared length 0..12,18,26,34 x {alone, after SACK-permitted, after two NOPs} replacing the options of the SACK handshake SYN-ACK and of the duplicate ACK; exhaustive over that product; same oracle")
	rec.Exhaustive = true
	RunCases(t, rec, func(yield func(*Scenario) bool) {
		lens := []int{0, 1, 2, 3, 4, 5, 6, 7, 8, 9, 10, 11, 12, 18, 26, 34}
		for _, anchor := range []int{0, 1, 3} {
			for _, kind := range []int{2, 3, 4, 5, 8, 30} {
				for _, l := range lens {
					for pos := 0; pos < 3; pos++ {
						var opt []byte
						switch pos {
						case 1:
							opt = append(opt, 4, 2)
						case 2:
							opt = append(opt, 1, 1)
						}
						opt = append(opt, byte(kind), byte(l))
						for k := 2; k < l; k++ {
							opt = append(opt, byte(k))
						}
						sc := baseC09Scenario("sack")
						sc.Muts = []MutSpec{{Anchor: anchor, DelayUs: 100, Ops: []MutOp{{Op: "tcpopts", Raw: opt}}}}
						if !yield(sc) {
							return
						}
					}
				}
			}
		}
	}, checkC09)
}
