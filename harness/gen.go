package harness

import (
	"fmt"

	"pgregory.net/rapid"
)

// GenOpts steer the shared scenario generator towards what a property needs.
type GenOpts struct {
	Variants   []string
	Noise      int  // max number of must-reject noise items
	Forms      bool // draw non-canonical reply forms
	Dups       bool
	WrongPlace bool // destination-form replies from the wrong place (C04)
	MaxSpan    int  // cap on last-first (0 = default mix incl. 1..255)
	SmallTimes bool // only cheap timings
	NoSilent   bool
	OwnWindow  bool   // serial: every reply arrives inside its own window (C02's quantifier)
	StrictMode string // "" both | strict | relaxed
	BigDelay   bool   // send delay >= 2*poll configurations (C05)
}

func oneOf[T any](t *rapid.T, label string, xs ...T) T {
	return xs[rapid.IntRange(0, len(xs)-1).Draw(t, label)]
}

func genTTLRange(t *rapid.T, maxSpan int) (int, int) {
	first := oneOf(t, "first_sel", 1, 1, 1, 2, 3, 7, 128, 250, 254, 255, 0)
	if first == 0 {
		first = rapid.IntRange(1, 255).Draw(t, "first")
	}
	span := oneOf(t, "span_sel", 0, 1, 2, 3, 5, 8, 12, 30, -1, -2)
	switch span {
	case -1:
		span = rapid.IntRange(0, 40).Draw(t, "span")
	case -2:
		span = 254
	}
	if maxSpan > 0 && span > maxSpan {
		span = rapid.IntRange(0, maxSpan).Draw(t, "span_capped")
	}
	last := first + span
	if last > 255 {
		last = 255
	}
	return first, last
}

var v4Targets = []string{"93.184.216.34", "8.8.8.8", "203.0.114.9", "1.0.0.1", "223.255.255.254", "100.64.0.1"}
var v6Targets = []string{"2001:db8:ffff::1", "2606:4700:4700::1111", "2a00:1450:4001:81b::200e"}

func genForm(t *rapid.T, kind string, v6 bool, relaxed bool) FormSpec {
	var f FormSpec
	if !rapid.Bool().Draw(t, "noncanonical") {
		return f
	}
	f.Quote = oneOf(t, "quote", "", "min", "full", "ext", "ext0", "ext2", "plus")
	if !v6 {
		f.OuterOpts = oneOf(t, "outer_opts", 0, 0, 1, 2, 5, 10)
		f.QCsum = oneOf(t, "q_csum", "", "", "stale")
		f.QTOS = oneOf(t, "q_tos", 0, 0, 0x48, 0xff)
		f.OuterTOS = uint8(oneOf(t, "outer_tos", 0, 0xc0))
		f.OuterID = uint16(rapid.IntRange(0, 65535).Draw(t, "outer_id"))
		f.OuterDF = rapid.Bool().Draw(t, "outer_df")
	} else {
		// IPv6: the quoted traffic class may have been re-marked (DSCP classes, ECN bits)
		f.QTOS = oneOf(t, "q_tclass", 0, 0, 0x02, 0x28, 0xb8, 0xff)
	}
	f.QTTL = oneOf(t, "q_ttl", 0, 1, 2)
	if kind == "udp" {
		f.QUDPCsumZero = !v6 && rapid.Bool().Draw(t, "udp0")
		f.Kind = oneOf(t, "icmp_kind", "", "", "", "unreach-port", "unreach-host", "unreach-admin")
	}
	if relaxed && kind != "icmp-echo" {
		f.NAT = oneOf(t, "nat", false, false, true)
	}
	return f
}

func destKinds(kind string) []string {
	switch kind {
	case "icmp-echo":
		return []string{"echo-reply", "echo-reply", "echo-reply", "echo-reply", "ttl-exceeded", "unreach-admin"}
	case "udp":
		return []string{"unreach-port", "unreach-port", "ttl-exceeded", "unreach-host", "unreach-admin"}
	case "tcp-syn":
		return []string{"synack", "rst", "rstack", "synack", "ttl-exceeded", "synack", "unreach-host", "unreach-admin"}
	default:
		return []string{"sack", "sack", "sack", "ttl-exceeded", "sack", "unreach-host", "unreach-admin"}
	}
}

func genDelayUs(t *rapid.T, sc *Scenario, label string) int64 {
	tmo := int64(sc.TimeoutMs) * 1000
	sel := oneOf(t, label+"_sel", 0, 1, 2, 3, 4, 5)
	switch sel {
	case 0:
		return 0
	case 1:
		return rapid.Int64Range(1, 999).Draw(t, label+"_us")
	case 2:
		return 1000 * rapid.Int64Range(1, 60).Draw(t, label+"_ms")
	case 3:
		return rapid.Int64Range(0, tmo).Draw(t, label+"_any")
	case 4:
		return tmo + rapid.Int64Range(-2000, 300000).Draw(t, label+"_edge")
	default:
		return 1000 * oneOf(t, label+"_std", int64(5), 20, 20, 80)
	}
}

// GenScenario draws one complete scenario.
func GenScenario(t *rapid.T, o GenOpts) *Scenario {
	vs := o.Variants
	if len(vs) == 0 {
		vs = AllVariants
	}
	sc := &Scenario{Variant: oneOf(t, "variant", vs...)}
	kind := sc.ProbeKind()
	v6 := sc.IsV6()
	switch o.StrictMode {
	case "strict":
		sc.Strict = true
	case "relaxed":
		sc.Strict = false
	default:
		sc.Strict = rapid.Bool().Draw(t, "strict")
	}
	if kind == "icmp-echo" {
		sc.Strict = true
	}
	sc.MinTTL, sc.MaxTTL = genTTLRange(t, o.MaxSpan)
	if o.SmallTimes {
		sc.TimeoutMs = oneOf(t, "timeout_ms", 100, 300)
		sc.DelayMs = oneOf(t, "delay_ms", 0, 1, 10)
	} else {
		sc.TimeoutMs = oneOf(t, "timeout_ms", 100, 300, 1000, 3000)
		sc.DelayMs = oneOf(t, "delay_ms", 0, 10, 50, 50, 250)
	}
	sc.PollMs = oneOf(t, "poll_ms", 100, 100, 10, 1)
	if o.BigDelay && rapid.Bool().Draw(t, "big_delay") {
		sc.DelayMs = oneOf(t, "delay_big", 250, 300, 500)
	}
	switch {
	case sc.Variant == "sack":
		sc.Target = fmt.Sprintf("127.%d.%d.%d", rapid.IntRange(1, 254).Draw(t, "t1"), rapid.IntRange(0, 255).Draw(t, "t2"), rapid.IntRange(2, 254).Draw(t, "t3"))
		sc.Port = 0
	case v6:
		sc.Target = oneOf(t, "target6", v6Targets...)
	default:
		sc.Target = oneOf(t, "target4", v4Targets...)
	}
	if sc.Variant != "sack" {
		sc.Port = oneOf(t, "port", 1, 80, 443, 33434, 65535, 255, 256, 0x8000)
	}
	sc.EchoBase = oneOf(t, "echo_base", uint32(0), 1, 0xfffe, 0xffff, 0x1fffe, 0xfffffffe, 0xabcd)
	sc.PktIDBase = oneOf(t, "pktid_base", uint32(0), 0xff00, 0xfff0, 0xffff, 0xfffffff0, 0x1234)
	if rapid.Bool().Draw(t, "seq_fixed") {
		sc.SeqMode = "fixed"
		sc.SeqBase = oneOf(t, "seq_base", uint32(0), 0xffffffff, 0x7fffffff, 0x80000000, 0x12345678)
	}
	sc.Sack = SackCfg{Permit: true, TS: rapid.Bool().Draw(t, "sack_ts"),
		ClientNxt: oneOf(t, "isn", uint32(0), 1, 0x7fffffff, 0x80000001, 0xffffff00, 0xffffffff, 0xfffffff0, 0x3c4d5e6f),
		ServerISN: uint32(rapid.Uint32().Draw(t, "srv_isn")), SynAckUs: oneOf(t, "synack_us", int64(0), 200, 20000)}

	if sc.Variant == "sack" && oneOf(t, "isn_straddle", false, false, true) {
		// the 32-bit sequence space wraps inside the probed range: isn + ttl crosses 2^32 for some probed TTL
		k := rapid.IntRange(sc.MinTTL, sc.MaxTTL+1).Draw(t, "isn_wrap_at")
		sc.Sack.ClientNxt = uint32(0x100000000 - int64(k))
	}
	// network behaviour
	span := sc.MaxTTL - sc.MinTTL
	dsel := oneOf(t, "dest_sel", "in", "in", "in", "none", "below", "first", "last")
	switch dsel {
	case "in":
		sc.Script.DestDist = rapid.IntRange(sc.MinTTL, sc.MaxTTL).Draw(t, "dest_dist")
	case "below":
		sc.Script.DestDist = rapid.IntRange(1, sc.MinTTL).Draw(t, "dest_below")
	case "first":
		sc.Script.DestDist = sc.MinTTL
	case "last":
		sc.Script.DestDist = sc.MaxTTL
	}
	relaxed := !sc.Strict
	genHop := func(label string, ttl int) HopSpec {
		var h HopSpec
		if !o.NoSilent {
			h.Silent = oneOf(t, label+"_silent", false, false, false, false, true)
		}
		h.DelayUs = genDelayUs(t, sc, label+"_delay")
		if o.OwnWindow && sc.Serial() {
			lim := int64(sc.TimeoutMs)*1000 - sc.Poll().Microseconds() - 1
			if lim < 0 {
				lim = 0
			}
			if h.DelayUs > lim {
				h.DelayUs = h.DelayUs % (lim + 1)
			}
		}
		if o.Forms {
			h.Form = genForm(t, kind, v6, relaxed)
			h.LinkPad = oneOf(t, label+"_linkpad", false, false, true)
		}
		if o.Dups && oneOf(t, label+"_dup", false, false, true) {
			n := rapid.IntRange(1, 3).Draw(t, label+"_ndup")
			for i := 0; i < n; i++ {
				h.DupsUs = append(h.DupsUs, h.DelayUs+genDelayUs(t, sc, fmt.Sprintf("%s_dup%d", label, i)))
			}
		}
		h.DestKind = oneOf(t, label+"_destkind", destKinds(kind)...)
		if o.Dups && oneOf(t, label+"_both", false, false, false, true) {
			h.Both = true
			h.BothDelayUs = genDelayUs(t, sc, label+"_both_delay")
			if o.OwnWindow && sc.Serial() {
				h.BothDelayUs %= int64(sc.TimeoutMs)*1000/2 + 1
			}
		}
		if kind == "tcp-ack" && oneOf(t, label+"_acklost", false, false, false, true) {
			h.AckLost = true
		}
		if o.WrongPlace && oneOf(t, label+"_wrong", false, false, true) {
			if v6 {
				h.FromOther = "2001:db8:0:99::99"
			} else if sc.Variant == "sack" {
				h.FromOther = "127.77.0.9"
			} else {
				h.FromOther = "198.51.100.99"
			}
		}
		return h
	}
	sc.Script.Default = genHop("hop_default", 0)
	sc.Script.Default.FromOther = ""
	nSpecific := rapid.IntRange(0, min(span+1, 6)).Draw(t, "n_specific")
	if nSpecific > 0 {
		sc.Script.Hops = map[int]HopSpec{}
		for i := 0; i < nSpecific; i++ {
			ttl := rapid.IntRange(sc.MinTTL, sc.MaxTTL).Draw(t, fmt.Sprintf("hop%d_ttl", i))
			sc.Script.Hops[ttl] = genHop(fmt.Sprintf("hop%d", i), ttl)
		}
	}
	// the write call may take time (a reply can be handled before WriteTo returns); only the parallel
	// variants, where sender and receiver are different goroutines
	if !sc.Serial() && oneOf(t, "write_lag", false, false, true) {
		sc.WriteLagUs = oneOf(t, "write_lag_us", int64(1), 3, 40)
	}
	// noise
	if o.Noise > 0 {
		kinds := quoteNoiseKinds[kind]
		n := rapid.IntRange(0, o.Noise).Draw(t, "n_noise")
		for i := 0; i < n; i++ {
			ni := NoiseItem{
				Anchor: rapid.IntRange(sc.MinTTL, sc.MaxTTL).Draw(t, fmt.Sprintf("noise%d_anchor", i)),
				Kind:   oneOf(t, fmt.Sprintf("noise%d_kind", i), kinds...),
				Arg:    rapid.IntRange(1, 300).Draw(t, fmt.Sprintf("noise%d_arg", i)),
			}
			if strictOnlyNoise[ni.Kind] && !sc.Strict {
				continue
			}
			ni.DelayUs = genDelayUs(t, sc, fmt.Sprintf("noise%d_delay", i))
			if ni.Kind == "q-unsent" || ni.Kind == "echo-reply-unsent" || ni.Kind == "sack-edge-unsent" {
				ni.Arg = rapid.IntRange(1, 6).Draw(t, fmt.Sprintf("noise%d_ahead", i))
				// must arrive strictly before that probe is emitted (or the TTL is never probed)
				lim := int64(ni.Arg)*int64(sc.DelayMs)*1000 - 1
				if ni.Anchor+ni.Arg > sc.MaxTTL {
					lim = int64(sc.TimeoutMs) * 1000
				}
				if sc.Serial() {
					lim = -1 // the serial engine sends the next probe when a reply ends the window: no safe bound
					if ni.Anchor+ni.Arg > sc.MaxTTL {
						lim = int64(sc.TimeoutMs) * 1000
					}
				}
				if lim < 0 {
					continue
				}
				if ni.DelayUs > lim {
					ni.DelayUs = lim
				}
			}
			if o.Forms {
				ni.Form = genForm(t, kind, v6, false)
				ni.Form.Kind, ni.Form.NAT = "", false
			}
			sc.Noise = append(sc.Noise, ni)
		}
	}
	return sc
}
