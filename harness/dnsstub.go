//go:build verif

package harness

import (
	"context"
	"net"
	"net/netip"
	"strings"
	"sync"
	"time"

	"golang.org/x/net/dns/dnsmessage"
)

// dnsStub is a scripted forward resolver: a UDP DNS server on loopback that knows a table of names, and a
// net.Resolver that asks nobody else. Names outside the table do not exist.
type dnsStub struct {
	conn  *net.UDPConn
	hosts map[string][]netip.Addr
	mu    sync.Mutex
	Asked map[string]int
	// V6First: AAAA records are listed before A records in what the caller of LookupIP gets is not under the
	// server's control (the resolver sorts); the table order is kept within a family.
}

func newDNSStub(hosts map[string][]string) (*dnsStub, error) {
	c, err := net.ListenUDP("udp4", &net.UDPAddr{IP: net.IPv4(127, 0, 0, 1)})
	if err != nil {
		return nil, err
	}
	d := &dnsStub{conn: c, hosts: map[string][]netip.Addr{}, Asked: map[string]int{}}
	for name, addrs := range hosts {
		for _, a := range addrs {
			d.hosts[strings.ToLower(strings.TrimSuffix(name, "."))+"."] = append(d.hosts[strings.ToLower(strings.TrimSuffix(name, "."))+"."], netip.MustParseAddr(a))
		}
		if len(addrs) == 0 {
			d.hosts[strings.ToLower(strings.TrimSuffix(name, "."))+"."] = nil
		}
	}
	go d.serve()
	return d, nil
}

func (d *dnsStub) serve() {
	buf := make([]byte, 1500)
	for {
		n, from, err := d.conn.ReadFromUDP(buf)
		if err != nil {
			return
		}
		var p dnsmessage.Parser
		h, err := p.Start(buf[:n])
		if err != nil {
			continue
		}
		q, err := p.Question()
		if err != nil {
			continue
		}
		name := strings.ToLower(q.Name.String())
		d.mu.Lock()
		d.Asked[name]++
		d.mu.Unlock()
		b := dnsmessage.NewBuilder(nil, dnsmessage.Header{ID: h.ID, Response: true, Authoritative: true, RecursionAvailable: true})
		b.EnableCompression()
		addrs, known := d.hosts[name]
		if !known {
			b = dnsmessage.NewBuilder(nil, dnsmessage.Header{ID: h.ID, Response: true, Authoritative: true, RecursionAvailable: true, RCode: dnsmessage.RCodeNameError})
		}
		b.StartQuestions()
		b.Question(q)
		b.StartAnswers()
		for _, a := range addrs {
			rh := dnsmessage.ResourceHeader{Name: q.Name, Class: dnsmessage.ClassINET, TTL: 60}
			switch {
			case q.Type == dnsmessage.TypeA && a.Is4():
				b.AResource(rh, dnsmessage.AResource{A: a.As4()})
			case q.Type == dnsmessage.TypeAAAA && a.Is6():
				b.AAAAResource(rh, dnsmessage.AAAAResource{AAAA: a.As16()})
			}
		}
		out, err := b.Finish()
		if err == nil {
			d.conn.WriteToUDP(out, from)
		}
	}
}

func (d *dnsStub) resolver() *net.Resolver {
	addr := d.conn.LocalAddr().String()
	return &net.Resolver{PreferGo: true, Dial: func(ctx context.Context, network, _ string) (net.Conn, error) {
		var dl net.Dialer
		return dl.DialContext(ctx, "udp4", addr)
	}}
}

func (d *dnsStub) close() { d.conn.Close() }

func init() {
	// package net keeps a process-wide semaphore channel for its resolver configuration and creates it on first
	// use; it must not be created inside a synctest bubble (channels made in a bubble belong to it)
	ctx, cancel := context.WithTimeout(context.Background(), 50*time.Millisecond)
	defer cancel()
	(&net.Resolver{PreferGo: true}).LookupHost(ctx, "localhost")
}
