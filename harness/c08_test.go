package harness

// C08: bounded termination and prompt cancellation, measured on the virtual clock.

import (
	"context"
	"errors"
	"fmt"
	"net/http"
	"testing"
	"testing/synctest"
	"time"

	"github.com/DataDog/datadog-traceroute/cache"
	"github.com/DataDog/datadog-traceroute/publicip"
	"github.com/DataDog/datadog-traceroute/reversedns"
	gocache "github.com/patrickmn/go-cache"
	"pgregory.net/rapid"
)

const c08Slack = 2 * time.Millisecond

func runBound(sc *Scenario) time.Duration { return scenarioBound(sc) + c08Slack }

func checkC08Run(t *testing.T, sc *Scenario, rec *Recorder) []Diff {
	o := RunScenario(t, sc)
	var ds []Diff
	labels := []string{"variant:" + sc.Variant}
	if sc.Flood != nil {
		labels = append(labels, "flood:"+sc.Flood.Kind)
	}
	if o.Deadlock != "" {
		rec.Case(scenarioKey(sc), true, nil, append(labels, "hang")...)
		return []Diff{{"C08", "hang", "run never returned (virtual-clock deadlock): " + o.Deadlock}}
	}
	if o.Panic != "" || o.Wire == nil {
		rec.Case(scenarioKey(sc), false, nil, append(labels, "other:crash")...)
		return []Diff{{"C09", "crash", o.Panic}}
	}
	bound := runBound(sc)
	nonMatching := 0
	for _, e := range o.Wire.Reads(0) {
		if e.Tag.Class == "flood" || e.Tag.Class == "raw" || e.Tag.Class == "own" || e.Tag.MustReject {
			nonMatching++
		}
	}
	cancelled := sc.CancelAtUs > 0 && us(sc.CancelAtUs) < o.Elapsed+time.Nanosecond
	if o.Wire.Spin {
		ds = append(ds, Diff{"C08", "busy-loop", fmt.Sprintf("%s run made > 300000 I/O calls without the virtual clock advancing (a retry loop that can never make progress); stopped by the harness watchdog", sc.Variant)})
	} else if o.Wire.Overrun {
		ds = append(ds, Diff{"C08", "run-never-ends", fmt.Sprintf("%s run was still going after %v of virtual time (bound %v): stopped by the harness watchdog", sc.Variant, o.Wire.MaxVirtual, bound)})
	} else if o.Elapsed > bound {
		ds = append(ds, Diff{"C08", "run-exceeds-bound", fmt.Sprintf("%s run took %v of virtual time, bound from its parameters is %v (timeout %v, delay %v x %d probes, poll %v)", sc.Variant, o.Elapsed, bound, sc.Timeout(), sc.Delay(), sc.MaxTTL-sc.MinTTL+1, sc.Poll())})
	}
	engineStart := time.Duration(0)
	if s := o.Wire.Sends(0); len(s) > 0 {
		engineStart = s[0].At - o.Start
	}
	if sc.CancelAtUs > 0 && sc.Variant == "sack" && (len(o.Wire.Sends(0)) == 0 || us(sc.CancelAtUs) <= engineStart) {
		// cancelled before the engine started (dial / handshake phase): the engine promptness clause does not apply
		labels = append(labels, "cancelled-before-engine")
	} else if sc.CancelAtUs > 0 {
		cAt := us(sc.CancelAtUs)
		if o.Err != nil && isCtxEnd(o.Err) {
			labels = append(labels, "cancelled-inside")
			if late := o.Elapsed - cAt; late > sc.Poll()+sc.Delay()+c08Slack {
				ds = append(ds, Diff{"C08", "slow-cancel", fmt.Sprintf("context cancelled at %v but the run returned at %v (%v later; allowed poll %v + delay %v)", cAt, o.Elapsed, late, sc.Poll(), sc.Delay())})
			}
		} else if cAt+sc.Poll()+sc.Delay()+c08Slack < o.Elapsed {
			// the run outlived the cancellation by more than the allowance without reporting it
			if sc.Variant != "sack" || cAt > 600*time.Millisecond {
				ds = append(ds, Diff{"C08", "cancel-ignored", fmt.Sprintf("context cancelled at %v, run returned at %v with err=%v (not the cancellation error)", cAt, o.Elapsed, o.Err)})
			}
		}
	}
	nt := nonMatching >= 20 || cancelled
	rec.Case(scenarioKey(sc), nt, map[string]any{"scenario": sc, "elapsed": o.Elapsed.String(), "bound": bound.String(), "non_matching_read": nonMatching}, labels...)
	return ds
}

func TestC08Runs(t *testing.T) {
	rec := NewRecorder("C08", "C08Runs", "rapid: protocol-level runs of every variant against silence, generated worlds, and floods of irrelevant/malformed packets at up to 10 packets per virtual millisecond (foreign ICMP errors, garbage, short packets, foreign SYN-ACKs, UDP), with cancellation instants drawn over the whole run for the context-taking entry points (icmp, sack), a third of them as a deadline carried by the caller's context instead of an explicit cancel; oracle: virtual elapsed time <= bound(parameters) and the end of the context is reported (context.Canceled / DeadlineExceeded) within poll + send delay; non-trivial = >= 20 non-matching packets were read or the context was cancelled strictly inside the run")
	RunProp(t, rec, func(rt *rapid.T) *Scenario {
		sc := GenScenario(rt, GenOpts{MaxSpan: 12, Dups: true})
		sc.Noise = nil
		if oneOf(rt, "flood", false, true, true) {
			sc.Flood = &FloodSpec{RatePerMs: oneOf(rt, "rate", 1, 3, 10), DurationMs: oneOf(rt, "flood_ms", 50, 400, 1500), Kind: oneOf(rt, "flood_kind", "mix", "mix", "icmp-foreign", "garbage", "short", "tcp-foreign", "udp")}
			sc.FiltersOff = rapid.Bool().Draw(rt, "filters_off")
		}
		if oneOf(rt, "silent_world", false, true) {
			sc.Script = FlowScript{Default: HopSpec{Silent: true}}
		}
		if sc.Serial() && oneOf(rt, "dup_storm", false, false, true) {
			// a hop that keeps re-sending its answer (duplicates arriving faster than the poll interval) while a
			// later TTL stays silent: the wait for the silent TTL must still end at its timeout
			k := rapid.IntRange(sc.MinTTL, sc.MaxTTL).Draw(rt, "storm_ttl")
			h := HopSpec{DelayUs: 1000}
			every := int64(oneOf(rt, "storm_every_ms", 20, 50, 90)) * 1000
			total := int64(sc.TimeoutMs)*1000*3 + 2_000_000
			for at := every; at < total && len(h.DupsUs) < 4000; at += every {
				h.DupsUs = append(h.DupsUs, at)
			}
			sc.Script.DestDist = 0
			sc.Script.Default = HopSpec{Silent: true}
			sc.Script.Hops = map[int]HopSpec{k: h}
		}
		if sc.Variant == "sack" && oneOf(rt, "handshake_trouble", false, false, true) {
			// the handshake is never shown to the capture handle, or only near misses are: bounded by 500 ms
			sc.Sack.NoSynAck = true
			for i := 0; i < rapid.IntRange(0, 4).Draw(rt, "n_near_miss"); i++ {
				sc.Sack.ExtraSynAcks = append(sc.Sack.ExtraSynAcks, SynAckNoise{Kind: oneOf(rt, fmt.Sprintf("near%d", i), "wrong-sport", "wrong-dport", "wrong-src", "wrong-dst", "not-synack")})
			}
		}
		if (sc.Variant == "icmp4" || sc.Variant == "icmp6" || sc.Variant == "sack") && rapid.Bool().Draw(rt, "cancel") {
			total := sc.Timeout() + time.Duration(sc.MaxTTL-sc.MinTTL+1)*sc.Delay()
			sc.CancelAtUs = rapid.Int64Range(1, total.Microseconds()+1000).Draw(rt, "cancel_at_us")
			sc.CancelDL = oneOf(rt, "cancel_by_deadline", false, false, true)
		}
		return sc
	}, checkC08Run)
}

// ---- engines with a scripted driver: cancellation promptness and bounds ----

func TestC08Engines(t *testing.T) {
	rec := NewRecorder("C08", "C08Engines", "rapid: both engines with a scripted driver (retryable noise at every slot) and a cancellation instant drawn over the run; oracle: elapsed <= bound; after cancellation the engine returns ctx.Err() within poll + send delay; non-trivial = cancelled strictly inside the run or >= 20 retryable results")
	RunProp(t, rec, func(rt *rapid.T) *EngineCase {
		c := genEngineCase(rt, "")
		c.SendLagNs = 0 // the stated bound assumes prompt sends
		n := int64(c.MaxTTL - c.MinTTL + 1)
		total := c.TimeoutNs + c.DelayNs*n
		if c.Engine == "serial" {
			total = n * (c.TimeoutNs + c.PollNs)
		}
		if rapid.Bool().Draw(rt, "cancel") {
			c.CancelAtNs = rapid.Int64Range(1, total+1).Draw(rt, "cancel_at")
			c.CancelDL = oneOf(rt, "cancel_by_deadline", false, false, true)
		}
		if rapid.Bool().Draw(rt, "noise_flood") {
			for i := 0; i < 40; i++ {
				c.Deliveries = append(c.Deliveries, Delivery{AtNs: int64(i) * (total / 40), TTL: c.MinTTL, Noise: oneOf(rt, fmt.Sprintf("nf%d", i), "nopkt", "badpkt"), Serial: 1000 + i})
			}
		}
		return c
	}, func(t *testing.T, c *EngineCase, rec *Recorder) []Diff {
		o := runEngine(t, c)
		var ds []Diff
		if o.panicked != "" {
			return []Diff{{"C08", "hang", "engine panicked or deadlocked: " + o.panicked}}
		}
		n := time.Duration(c.MaxTTL - c.MinTTL + 1)
		timeout, poll, delay := time.Duration(c.TimeoutNs), time.Duration(c.PollNs), time.Duration(c.DelayNs)
		bound := timeout + n*delay + poll + c08Slack
		if c.Engine == "serial" {
			per := timeout + poll
			if delay > per {
				per = delay
			}
			bound = n*per + c08Slack
		}
		if o.drv != nil && o.drv.overrun {
			ds = append(ds, Diff{"C08", "engine-never-ends", fmt.Sprintf("%s engine still running after %v of virtual time (bound %v): stopped by the harness watchdog", c.Engine, o.drv.limit, bound)})
		} else if o.elapsed > bound {
			ds = append(ds, Diff{"C08", "engine-exceeds-bound", fmt.Sprintf("%s engine took %v, bound %v", c.Engine, o.elapsed, bound)})
		}
		inside := false
		if c.CancelAtNs > 0 {
			cAt := time.Duration(c.CancelAtNs)
			if isCtxEnd(o.err) {
				inside = true
				if late := o.elapsed - cAt; late > poll+delay+c08Slack {
					ds = append(ds, Diff{"C08", "slow-cancel", fmt.Sprintf("%s engine: cancelled at %v, returned at %v (%v later; allowed %v)", c.Engine, cAt, o.elapsed, late, poll+delay)})
				}
			} else if cAt+poll+delay+c08Slack < o.elapsed {
				ds = append(ds, Diff{"C08", "cancel-ignored", fmt.Sprintf("%s engine: cancelled at %v, returned at %v with err=%v", c.Engine, cAt, o.elapsed, o.err)})
			} else if o.err == nil && cAt < o.elapsed-c08Slack {
				// cancelled before the end yet a result was returned: the engine must report external cancellation
				ds = append(ds, Diff{"C08", "cancel-swallowed", fmt.Sprintf("%s engine: cancelled at %v but returned a result at %v", c.Engine, cAt, o.elapsed)})
			}
		}
		noise := 0
		for _, r := range o.drv.returned {
			if r.d.Noise != "" {
				noise++
			}
		}
		rec.Case(scenarioKey(c), inside || noise >= 20, c, "engine:"+c.Engine)
		return ds
	})
}

// ---- auxiliary services ----

type svcCase struct {
	Kind      string                    `json:"kind"` // publicip | reversedns
	Providers map[string][]ProviderStep `json:"providers,omitempty"`
	Default   []ProviderStep            `json:"default,omitempty"`
	DNS       DNSScript                 `json:"dns"`
	CancelMs  int                       `json:"cancel_ms,omitempty"`
}

func stepsGen(rt *rapid.T, label string) []ProviderStep {
	n := rapid.IntRange(1, 3).Draw(rt, label+"_n")
	var out []ProviderStep
	for i := 0; i < n; i++ {
		k := oneOf(rt, fmt.Sprintf("%s_%d_kind", label, i), "hang-before", "hang-after-headers", "slow-body", "neterr", "resp", "resp")
		st := ProviderStep{Kind: k}
		switch k {
		case "resp":
			st.Status = oneOf(rt, fmt.Sprintf("%s_%d_status", label, i), 200, 200, 204, 301, 400, 404, 429, 499, 500, 503)
			st.Body = oneOf(rt, fmt.Sprintf("%s_%d_body", label, i), "203.0.113.7", " 203.0.113.7\n", "2001:db8::7", "not an ip", "", "999.1.1.1", "<html>203.0.113.7</html>", "fe80::7%eth0", "2001:db8::7%1", "203.0.113.7/32", "203.0.113.7:80")
			st.DelayMs = oneOf(rt, fmt.Sprintf("%s_%d_delay", label, i), 0, 10, 700, 2500)
		case "slow-body":
			st.Body = "203.0.113.7"
			st.DelayMs = oneOf(rt, fmt.Sprintf("%s_%d_sdelay", label, i), 50, 300, 900)
		}
		out = append(out, st)
	}
	return out
}

func genProviders(rt *rapid.T) (map[string][]ProviderStep, []ProviderStep) {
	m := map[string][]ProviderStep{}
	for i, u := range publicip.VerifIPCheckers() {
		if oneOf(rt, fmt.Sprintf("p%d_scripted", i), true, true, false) {
			m[u] = stepsGen(rt, fmt.Sprintf("p%d", i))
		}
	}
	return m, stepsGen(rt, "pdef")
}

func TestC08Services(t *testing.T) {
	rec := NewRecorder("C08", "C08Services", "rapid: PublicIPFetcher.GetIP over a scripted RoundTripper (per provider: hang before headers, hang after headers, slow body, transport error, status classes, valid/invalid bodies, slow answers) and GetReverseDns with a resolver that blocks until its context ends; oracle: virtual elapsed <= 5 providers x 2 s (+50 ms) resp. 5 s (+50 ms); non-trivial = at least one provider or the resolver stalled")
	RunProp(t, rec, func(rt *rapid.T) *svcCase {
		c := &svcCase{Kind: oneOf(rt, "kind", "publicip", "publicip", "publicip", "reversedns")}
		if c.Kind == "publicip" {
			c.Providers, c.Default = genProviders(rt)
		} else {
			c.DNS = DNSScript{Hang: oneOf(rt, "dns_hang", true, true, false), DelayMs: oneOf(rt, "dns_delay", 0, 100, 4900, 6000), Err: rapid.Bool().Draw(rt, "dns_err"), Names: []string{"a.example."}}
		}
		return c
	}, func(t *testing.T, c *svcCase, rec *Recorder) []Diff {
		var elapsed time.Duration
		var deadlock string
		stalled := false
		oldLookup := reversedns.LookupAddrFn
		oldCache := cache.Cache
		defer func() { reversedns.LookupAddrFn, cache.Cache = oldLookup, oldCache }()
		func() {
			defer func() {
				if r := recover(); r != nil {
					deadlock = fmt.Sprint(r)
				}
			}()
			synctest.Test(t, func(t *testing.T) {
				cache.Cache = gocache.New(5*time.Minute, 0)
				begin := time.Now()
				if c.Kind == "publicip" {
					rt := newScriptedRT(c.Providers, c.Default)
					f := publicip.NewPublicIPFetcherWithClient(&http.Client{Transport: rt})
					f.GetIP(context.Background())
				} else {
					reversedns.LookupAddrFn = func(ctx context.Context, addr string) ([]string, error) {
						if c.DNS.Hang {
							select {
							case <-ctx.Done():
								return nil, ctx.Err()
							case <-time.After(time.Hour):
								return nil, errors.New("resolver gave up")
							}
						}
						select {
						case <-ctx.Done():
							return nil, ctx.Err()
						case <-time.After(time.Duration(c.DNS.DelayMs) * time.Millisecond):
						}
						if c.DNS.Err {
							return nil, errors.New("scripted failure")
						}
						return c.DNS.Names, nil
					}
					reversedns.GetReverseDns("198.18.1.1")
				}
				elapsed = time.Since(begin)
			})
		}()
		var ds []Diff
		bound := 10*time.Second + 50*time.Millisecond
		if c.Kind == "reversedns" {
			bound = 5*time.Second + 50*time.Millisecond
			stalled = c.DNS.Hang || c.DNS.DelayMs >= 4900
		} else {
			for _, steps := range c.Providers {
				for _, s := range steps {
					if s.Kind == "hang-before" || s.Kind == "hang-after-headers" || s.Kind == "slow-body" || s.DelayMs >= 2500 {
						stalled = true
					}
				}
			}
			for _, s := range c.Default {
				if s.Kind == "hang-before" || s.Kind == "hang-after-headers" || s.Kind == "slow-body" || s.DelayMs >= 2500 {
					stalled = true
				}
			}
		}
		if deadlock != "" {
			ds = append(ds, Diff{"C08", "service-hang", c.Kind + " never returned: " + deadlock})
		} else if elapsed > bound {
			ds = append(ds, Diff{"C08", "service-exceeds-bound", fmt.Sprintf("%s lookup took %v of virtual time, bound %v", c.Kind, elapsed, bound)})
		}
		rec.Case(scenarioKey(c), stalled, map[string]any{"case": c, "elapsed": elapsed.String()}, "kind:"+c.Kind)
		return ds
	})
}

// ---- whole request with stalled services ----

func TestC08Request(t *testing.T) {
	rec := NewRecorder("C08", "C08Request", "rapid: RunTraceroute (1-3 runs, 0-3 e2e probes, every protocol) over a silent or answering world with stalled public-IP providers and a stalled resolver; oracle: virtual elapsed <= e2e pacing + per-run bound + 10 s public IP (concurrent) + 5 s reverse DNS; non-trivial = a service stalled")
	RunProp(t, rec, func(rt *rapid.T) *Request {
		rq := &Request{}
		rq.P = ReqParams{Hostname: "93.184.216.34", Port: 443, Protocol: oneOf(rt, "proto", "udp", "icmp", "tcp"), MinTTL: 1, MaxTTL: rapid.IntRange(1, 6).Draw(rt, "max"),
			DelayMs: oneOf(rt, "delay", 0, 10, 50), TimeoutMs: oneOf(rt, "timeout", 50, 300, 1000), Queries: rapid.IntRange(1, 3).Draw(rt, "q"), E2e: rapid.IntRange(0, 3).Draw(rt, "e2e"),
			ReverseDns: rapid.Bool().Draw(rt, "rdns"), PublicIP: rapid.Bool().Draw(rt, "pubip")}
		if rapid.Bool().Draw(rt, "v6") && rq.P.Protocol != "tcp" {
			rq.P.Hostname = "2001:db8:ffff::1"
		}
		rq.Scripts = []FlowScript{{DestDist: oneOf(rt, "dest", 0, 2, 4), Default: HopSpec{DelayUs: 3000, Silent: rapid.Bool().Draw(rt, "silent")}}}
		rq.Providers, rq.ProviderDefault = genProviders(rt)
		rq.DNSDefault = DNSScript{Hang: oneOf(rt, "dns_hang", true, false), DelayMs: oneOf(rt, "dns_delay", 0, 200), Names: []string{"r.example."}}
		return rq
	}, func(t *testing.T, rq *Request, rec *Recorder) []Diff {
		o := RunRequest(t, rq)
		var ds []Diff
		if o.Deadlock != "" {
			return []Diff{{"C08", "request-hang", "RunTraceroute never returned: " + o.Deadlock}}
		}
		if o.Panic != "" {
			return []Diff{{"C09", "crash", o.Panic}}
		}
		p := rq.P
		n := time.Duration(p.MaxTTL - p.MinTTL + 1)
		timeout, delay, poll := time.Duration(p.TimeoutMs)*time.Millisecond, time.Duration(p.DelayMs)*time.Millisecond, 100*time.Millisecond
		run := timeout + n*delay + poll
		if p.Protocol == "tcp" {
			per := timeout + poll
			if delay > per {
				per = delay
			}
			run = n * per
		}
		pacing := time.Duration(0)
		if p.E2e > 1 {
			d := time.Duration(p.MaxTTL) * timeout / time.Duration(p.E2e)
			if d > time.Second {
				d = time.Second
			}
			pacing = time.Duration(p.E2e-1) * d
		}
		// e2e probes are single-TTL runs started after the pacing delays
		e2eRun := timeout + delay + poll
		if p.Protocol == "tcp" && delay > timeout+poll {
			e2eRun = delay
		}
		bound := run
		if p.E2e > 0 && pacing+e2eRun > bound {
			bound = pacing + e2eRun
		}
		// the public IP lookup is started after the e2e pacing sleeps
		if p.PublicIP && bound < pacing+10*time.Second {
			bound = pacing + 10*time.Second
		}
		if p.ReverseDns {
			bound += 5 * time.Second
		}
		bound += 100 * time.Millisecond
		if o.Elapsed > bound {
			ds = append(ds, Diff{"C08", "request-exceeds-bound", fmt.Sprintf("RunTraceroute took %v of virtual time, bound %v (run %v, e2e pacing %v, public IP %v, reverse DNS %v)", o.Elapsed, bound, run, pacing, p.PublicIP, p.ReverseDns)})
		}
		stalled := (p.ReverseDns && rq.DNSDefault.Hang) || p.PublicIP
		rec.Case(scenarioKey(rq), stalled, map[string]any{"request": rq, "elapsed": o.Elapsed.String(), "bound": bound.String()}, "protocol:"+p.Protocol)
		return ds
	})
}

// TestC08SharedFetcherRealTime: the bound of a run is computable from ITS parameters also when several runs share
// one public-IP fetcher (the HTTP server keeps a single one) and the providers stall. Lock contention cannot be
// hosted on the virtual clock (a goroutine waiting for a mutex is not durably blocked), so this runs on the real
// clock: every provider hangs until the request's context ends, three callers start together on a cold cache.
func TestC08SharedFetcherRealTime(t *testing.T) {
	rec := NewRecorder("C08", "C08SharedFetcherRealTime", "real clock: one PublicIPFetcher over a transport that never answers (each of the 5 providers uses up its 2 s budget), 3 callers starting together on a cold cache plus one caller whose context is cancelled after 300 ms; oracle: every caller is back within the per-lookup bound (5 x 2 s) + 2 s of slack measured from its own start, the cancelled one within 2 s of its cancellation; non-trivial always")
	rec.Assumptions = append(rec.Assumptions, "real time: 2 s of slack absorb scheduling noise; a caller queued behind another caller's lookup returns after a multiple of the bound")
	rec.Exhaustive = true
	type shared struct {
		Callers int `json:"callers"`
	}
	RunCases(t, rec, func(yield func(*shared) bool) { yield(&shared{Callers: 3}) }, func(t *testing.T, c *shared, rec *Recorder) []Diff {
		reqMu.Lock()
		defer reqMu.Unlock()
		cache.Cache = gocache.New(5*time.Minute, 0)
		nProviders := len(publicip.VerifIPCheckers())
		bound := time.Duration(nProviders)*2*time.Second + 2*time.Second
		hang := roundTripFunc(func(r *http.Request) (*http.Response, error) {
			<-r.Context().Done()
			return nil, r.Context().Err()
		})
		f := publicip.NewPublicIPFetcherWithClient(&http.Client{Transport: hang})
		type ret struct {
			who     string
			elapsed time.Duration
		}
		done := make(chan ret, c.Callers+1)
		start := time.Now()
		for i := 0; i < c.Callers; i++ {
			go func(i int) {
				f.GetIP(context.Background())
				done <- ret{fmt.Sprintf("caller %d", i), time.Since(start)}
			}(i)
		}
		cctx, cancel := context.WithCancel(context.Background())
		go func() {
			time.Sleep(300 * time.Millisecond)
			cancel()
		}()
		go func() {
			f.GetIP(cctx)
			done <- ret{"cancelled caller", time.Since(start)}
		}()
		var ds []Diff
		got := 0
		timer := time.NewTimer(bound)
		defer timer.Stop()
		for got < c.Callers+1 {
			select {
			case r := <-done:
				got++
				if r.who == "cancelled caller" && r.elapsed > 300*time.Millisecond+2*time.Second {
					ds = append(ds, Diff{"C08", "cancel-not-prompt", fmt.Sprintf("a public-IP lookup whose context was cancelled after 300 ms returned after %v", r.elapsed.Round(time.Millisecond))})
				}
			case <-timer.C:
				ds = append(ds, Diff{"C08", "lookup-exceeds-own-bound", fmt.Sprintf("%d of %d concurrent public-IP lookups on one fetcher were not back %v after they started (per-lookup bound: %d providers x 2 s, + 2 s slack): a lookup waits for other callers' lookups", c.Callers+1-got, c.Callers+1, bound, nProviders)})
				got = c.Callers + 1
			}
		}
		rec.CaseEnumerated(true, map[string]any{"callers": c.Callers, "elapsed_s": time.Since(start).Seconds()})
		return ds
	})
}

type roundTripFunc func(*http.Request) (*http.Response, error)

func (f roundTripFunc) RoundTrip(r *http.Request) (*http.Response, error) { return f(r) }
