package harness

// Independent packet codec: IPv4, IPv6, ICMPv4, ICMPv6, UDP, TCP written from the RFC layouts.
// It deliberately does not import gopacket, so that a mistake in the code under test's use of
// gopacket cannot cancel out against the oracle.

import (
	"encoding/binary"
	"errors"
	"fmt"
	"net/netip"
)

const (
	ProtoICMP   = 1
	ProtoTCP    = 6
	ProtoUDP    = 17
	ProtoFrag6  = 44
	ProtoICMPv6 = 58
)

// IPPacket is a decoded IPv4 or IPv6 packet (no extension header support beyond what builders emit).
type IPPacket struct {
	V6       bool
	IHL      int // v4: header length in 32-bit words
	TOS      uint8
	TotalLen int    // v4 total length / v6 payload length as on the wire
	ID       uint16 // v4 only
	Flags    uint8  // v4: 3 bits (bit1 = DF, bit0 = MF) as in the header's top 3 bits
	FragOff  uint16 // v4
	TTL      uint8  // v4 TTL / v6 hop limit
	Proto    uint8  // v4 protocol / v6 next header
	HdrCsum  uint16 // v4
	Flow     uint32 // v6 flow label
	Src, Dst netip.Addr
	Options  []byte // v4 options
	Payload  []byte
}

func inetChecksum(chunks ...[]byte) uint16 {
	var sum uint32
	var odd bool
	var last byte
	for _, b := range chunks {
		for _, x := range b {
			if odd {
				sum += uint32(last)<<8 | uint32(x)
				odd = false
			} else {
				last = x
				odd = true
			}
		}
	}
	if odd {
		sum += uint32(last) << 8
	}
	for sum>>16 != 0 {
		sum = (sum & 0xffff) + (sum >> 16)
	}
	return ^uint16(sum)
}

func pseudoHeader(src, dst netip.Addr, proto uint8, length int) []byte {
	if src.Is4() {
		b := make([]byte, 12)
		s, d := src.As4(), dst.As4()
		copy(b[0:4], s[:])
		copy(b[4:8], d[:])
		b[9] = proto
		binary.BigEndian.PutUint16(b[10:], uint16(length))
		return b
	}
	b := make([]byte, 40)
	s, d := src.As16(), dst.As16()
	copy(b[0:16], s[:])
	copy(b[16:32], d[:])
	binary.BigEndian.PutUint32(b[32:], uint32(length))
	b[39] = proto
	return b
}

// DecodeIP decodes and structurally validates an IP packet that must exactly fill b.
// strict=true additionally requires total length == len(b) (for probes); replies may carry padding.
func DecodeIP(b []byte) (*IPPacket, error) {
	if len(b) < 1 {
		return nil, errors.New("empty packet")
	}
	switch b[0] >> 4 {
	case 4:
		if len(b) < 20 {
			return nil, fmt.Errorf("ipv4: short header (%d bytes)", len(b))
		}
		p := &IPPacket{}
		p.IHL = int(b[0] & 0xf)
		if p.IHL < 5 {
			return nil, fmt.Errorf("ipv4: IHL %d < 5", p.IHL)
		}
		if len(b) < p.IHL*4 {
			return nil, fmt.Errorf("ipv4: IHL %d beyond packet", p.IHL)
		}
		p.TOS = b[1]
		p.TotalLen = int(binary.BigEndian.Uint16(b[2:]))
		p.ID = binary.BigEndian.Uint16(b[4:])
		ff := binary.BigEndian.Uint16(b[6:])
		p.Flags = uint8(ff >> 13)
		p.FragOff = ff & 0x1fff
		p.TTL = b[8]
		p.Proto = b[9]
		p.HdrCsum = binary.BigEndian.Uint16(b[10:])
		p.Src = netip.AddrFrom4([4]byte(b[12:16]))
		p.Dst = netip.AddrFrom4([4]byte(b[16:20]))
		p.Options = append([]byte(nil), b[20:p.IHL*4]...)
		if p.TotalLen < p.IHL*4 || p.TotalLen > len(b) {
			return nil, fmt.Errorf("ipv4: total length %d inconsistent with IHL %d / buffer %d", p.TotalLen, p.IHL, len(b))
		}
		p.Payload = append([]byte(nil), b[p.IHL*4:p.TotalLen]...)
		return p, nil
	case 6:
		if len(b) < 40 {
			return nil, fmt.Errorf("ipv6: short header (%d bytes)", len(b))
		}
		p := &IPPacket{V6: true}
		p.TOS = uint8(binary.BigEndian.Uint16(b[0:]) >> 4)
		p.Flow = binary.BigEndian.Uint32(b[0:]) & 0xfffff
		p.TotalLen = int(binary.BigEndian.Uint16(b[4:]))
		p.Proto = b[6]
		p.TTL = b[7]
		p.Src = netip.AddrFrom16([16]byte(b[8:24]))
		p.Dst = netip.AddrFrom16([16]byte(b[24:40]))
		if 40+p.TotalLen > len(b) {
			return nil, fmt.Errorf("ipv6: payload length %d beyond buffer %d", p.TotalLen, len(b))
		}
		p.Payload = append([]byte(nil), b[40:40+p.TotalLen]...)
		return p, nil
	}
	return nil, fmt.Errorf("unknown IP version %d", b[0]>>4)
}

// WireLen returns the on-wire length the headers claim.
func (p *IPPacket) WireLen() int {
	if p.V6 {
		return 40 + p.TotalLen
	}
	return p.TotalLen
}

// HeaderChecksumOK verifies the IPv4 header checksum of the original bytes.
func ipv4HeaderChecksumOK(b []byte) bool {
	ihl := int(b[0]&0xf) * 4
	return inetChecksum(b[:ihl]) == 0
}

// EncodeOpts control deliberate deviations when encoding.
type EncodeOpts struct {
	BadHdrCsum   bool // leave a wrong IPv4 header checksum
	KeepTotalLen bool // do not recompute length fields
}

// Encode serialises the packet. Lengths and the IPv4 header checksum are recomputed unless opts say otherwise.
func (p *IPPacket) Encode(opts EncodeOpts) []byte {
	if p.V6 {
		b := make([]byte, 40+len(p.Payload))
		binary.BigEndian.PutUint32(b[0:], 6<<28|uint32(p.TOS)<<20|p.Flow&0xfffff)
		plen := len(p.Payload)
		if opts.KeepTotalLen {
			plen = p.TotalLen
		}
		binary.BigEndian.PutUint16(b[4:], uint16(plen))
		b[6] = p.Proto
		b[7] = p.TTL
		s, d := p.Src.As16(), p.Dst.As16()
		copy(b[8:24], s[:])
		copy(b[24:40], d[:])
		copy(b[40:], p.Payload)
		return b
	}
	opt := p.Options
	for len(opt)%4 != 0 {
		opt = append(opt, 0)
	}
	ihl := 5 + len(opt)/4
	b := make([]byte, ihl*4+len(p.Payload))
	b[0] = 4<<4 | uint8(ihl)
	b[1] = p.TOS
	tl := len(b)
	if opts.KeepTotalLen {
		tl = p.TotalLen
	}
	binary.BigEndian.PutUint16(b[2:], uint16(tl))
	binary.BigEndian.PutUint16(b[4:], p.ID)
	binary.BigEndian.PutUint16(b[6:], uint16(p.Flags)<<13|p.FragOff&0x1fff)
	b[8] = p.TTL
	b[9] = p.Proto
	s, d := p.Src.As4(), p.Dst.As4()
	copy(b[12:16], s[:])
	copy(b[16:20], d[:])
	copy(b[20:], opt)
	copy(b[ihl*4:], p.Payload)
	cs := inetChecksum(b[:ihl*4])
	if opts.BadHdrCsum {
		cs ^= 0x5a5a
	}
	binary.BigEndian.PutUint16(b[10:], cs)
	return b
}

// ---- transport ----

type ICMPMsg struct {
	Type, Code uint8
	Csum       uint16
	Rest       [4]byte // echo: id, seq; errors: unused / RFC 4884 length
	Body       []byte
}

func (m *ICMPMsg) EchoID() uint16  { return binary.BigEndian.Uint16(m.Rest[0:2]) }
func (m *ICMPMsg) EchoSeq() uint16 { return binary.BigEndian.Uint16(m.Rest[2:4]) }

func DecodeICMP(b []byte) (*ICMPMsg, error) {
	if len(b) < 8 {
		return nil, fmt.Errorf("icmp: short message (%d bytes)", len(b))
	}
	m := &ICMPMsg{Type: b[0], Code: b[1], Csum: binary.BigEndian.Uint16(b[2:])}
	copy(m.Rest[:], b[4:8])
	m.Body = append([]byte(nil), b[8:]...)
	return m, nil
}

// EncodeICMP serialises with a correct checksum (v6 needs the pseudo header).
func EncodeICMP(m *ICMPMsg, v6 bool, src, dst netip.Addr) []byte {
	b := make([]byte, 8+len(m.Body))
	b[0], b[1] = m.Type, m.Code
	copy(b[4:8], m.Rest[:])
	copy(b[8:], m.Body)
	var cs uint16
	if v6 {
		cs = inetChecksum(pseudoHeader(src, dst, ProtoICMPv6, len(b)), b)
	} else {
		cs = inetChecksum(b)
	}
	binary.BigEndian.PutUint16(b[2:], cs)
	return b
}

type UDPHdr struct {
	Src, Dst uint16
	Len      uint16
	Csum     uint16
	Payload  []byte
}

func DecodeUDP(b []byte) (*UDPHdr, error) {
	if len(b) < 8 {
		return nil, fmt.Errorf("udp: short header (%d bytes)", len(b))
	}
	u := &UDPHdr{
		Src: binary.BigEndian.Uint16(b[0:]), Dst: binary.BigEndian.Uint16(b[2:]),
		Len: binary.BigEndian.Uint16(b[4:]), Csum: binary.BigEndian.Uint16(b[6:]),
	}
	u.Payload = append([]byte(nil), b[8:]...)
	return u, nil
}

const (
	TCPFin = 1 << iota
	TCPSyn
	TCPRst
	TCPPsh
	TCPAck
	TCPUrg
	TCPEce
	TCPCwr
)

type TCPSeg struct {
	Src, Dst uint16
	Seq, Ack uint32
	DataOff  int
	Flags    uint8
	Window   uint16
	Csum     uint16
	Urg      uint16
	Options  []byte
	Payload  []byte
}

func DecodeTCP(b []byte) (*TCPSeg, error) {
	if len(b) < 20 {
		return nil, fmt.Errorf("tcp: short header (%d bytes)", len(b))
	}
	s := &TCPSeg{
		Src: binary.BigEndian.Uint16(b[0:]), Dst: binary.BigEndian.Uint16(b[2:]),
		Seq: binary.BigEndian.Uint32(b[4:]), Ack: binary.BigEndian.Uint32(b[8:]),
		DataOff: int(b[12] >> 4), Flags: b[13],
		Window: binary.BigEndian.Uint16(b[14:]), Csum: binary.BigEndian.Uint16(b[16:]), Urg: binary.BigEndian.Uint16(b[18:]),
	}
	if s.DataOff < 5 || s.DataOff*4 > len(b) {
		return nil, fmt.Errorf("tcp: data offset %d invalid for %d bytes", s.DataOff, len(b))
	}
	s.Options = append([]byte(nil), b[20:s.DataOff*4]...)
	s.Payload = append([]byte(nil), b[s.DataOff*4:]...)
	return s, nil
}

// EncodeTCP serialises a segment with options padded to 32 bits and a correct checksum.
func EncodeTCP(s *TCPSeg, src, dst netip.Addr) []byte {
	opt := append([]byte(nil), s.Options...)
	for len(opt)%4 != 0 {
		opt = append(opt, 0)
	}
	off := 5 + len(opt)/4
	b := make([]byte, off*4+len(s.Payload))
	binary.BigEndian.PutUint16(b[0:], s.Src)
	binary.BigEndian.PutUint16(b[2:], s.Dst)
	binary.BigEndian.PutUint32(b[4:], s.Seq)
	binary.BigEndian.PutUint32(b[8:], s.Ack)
	b[12] = uint8(off) << 4
	b[13] = s.Flags
	binary.BigEndian.PutUint16(b[14:], s.Window)
	binary.BigEndian.PutUint16(b[18:], s.Urg)
	copy(b[20:], opt)
	copy(b[off*4:], s.Payload)
	proto := uint8(ProtoTCP)
	cs := inetChecksum(pseudoHeader(src, dst, proto, len(b)), b)
	binary.BigEndian.PutUint16(b[16:], cs)
	return b
}

// TCPOpt is one parsed TCP option.
type TCPOpt struct {
	Kind uint8
	Data []byte
}

// ParseTCPOptions parses the option block; malformed lengths are an error.
func ParseTCPOptions(b []byte) ([]TCPOpt, error) {
	var out []TCPOpt
	for i := 0; i < len(b); {
		k := b[i]
		if k == 0 {
			break
		}
		if k == 1 {
			out = append(out, TCPOpt{Kind: 1})
			i++
			continue
		}
		if i+1 >= len(b) {
			return nil, errors.New("tcp option: missing length")
		}
		l := int(b[i+1])
		if l < 2 || i+l > len(b) {
			return nil, fmt.Errorf("tcp option %d: bad length %d", k, l)
		}
		out = append(out, TCPOpt{Kind: k, Data: append([]byte(nil), b[i+2:i+l]...)})
		i += l
	}
	return out, nil
}

// ---- probe validation (C06) ----

// Probe is what the harness understands of a packet emitted by the code under test.
type Probe struct {
	Raw   []byte
	IP    *IPPacket
	Kind  string // "icmp-echo", "udp", "tcp-syn", "tcp-ack"
	TTL   uint8
	ICMP  *ICMPMsg
	UDP   *UDPHdr
	TCP   *TCPSeg
	SPort uint16
	DPort uint16
}

// FlowKey identifies the flow a probe belongs to as visible on the wire.
func (p *Probe) FlowKey() string {
	switch p.Kind {
	case "icmp-echo":
		return fmt.Sprintf("icmp|%s|%s|%d", p.IP.Src, p.IP.Dst, p.ICMP.EchoID())
	default:
		return fmt.Sprintf("%s|%s|%d|%s|%d", p.Kind[:3], p.IP.Src, p.SPort, p.IP.Dst, p.DPort)
	}
}

// ProbeIdent returns the per-probe identifier, in the representation an ICMP quote exposes.
func (p *Probe) Ident() string {
	switch p.Kind {
	case "icmp-echo":
		return fmt.Sprintf("seq=%d", p.ICMP.EchoSeq())
	case "udp":
		if p.IP.V6 {
			return fmt.Sprintf("len=%d", p.IP.TotalLen)
		}
		return fmt.Sprintf("ipid=%d", p.IP.ID)
	default:
		return fmt.Sprintf("ipid=%d,seq=%d", p.IP.ID, p.TCP.Seq)
	}
}

// ValidateProbe fully checks a packet handed to Sink.WriteTo: structure, lengths and checksums.
func ValidateProbe(b []byte) (*Probe, error) {
	ip, err := DecodeIP(b)
	if err != nil {
		return nil, err
	}
	if ip.WireLen() != len(b) {
		return nil, fmt.Errorf("IP length field says %d bytes, buffer has %d", ip.WireLen(), len(b))
	}
	if !ip.V6 {
		if !ipv4HeaderChecksumOK(b) {
			return nil, fmt.Errorf("IPv4 header checksum wrong")
		}
		if ip.FragOff != 0 || ip.Flags&1 != 0 {
			return nil, fmt.Errorf("probe is a fragment (flags=%d off=%d)", ip.Flags, ip.FragOff)
		}
		if ip.Flags&4 != 0 {
			return nil, fmt.Errorf("reserved IPv4 flag set")
		}
	}
	if ip.Src.Is4() != ip.Dst.Is4() {
		return nil, fmt.Errorf("mixed address families")
	}
	pr := &Probe{Raw: append([]byte(nil), b...), IP: ip, TTL: ip.TTL}
	switch {
	case !ip.V6 && ip.Proto == ProtoICMP, ip.V6 && ip.Proto == ProtoICMPv6:
		m, err := DecodeICMP(ip.Payload)
		if err != nil {
			return nil, err
		}
		var cs uint16
		if ip.V6 {
			cs = inetChecksum(pseudoHeader(ip.Src, ip.Dst, ProtoICMPv6, len(ip.Payload)), ip.Payload)
		} else {
			cs = inetChecksum(ip.Payload)
		}
		if cs != 0 {
			return nil, fmt.Errorf("ICMP checksum wrong")
		}
		want := uint8(8)
		if ip.V6 {
			want = 128
		}
		if m.Type != want || m.Code != 0 {
			return nil, fmt.Errorf("ICMP probe type/code %d/%d is not echo request", m.Type, m.Code)
		}
		pr.Kind, pr.ICMP = "icmp-echo", m
	case ip.Proto == ProtoUDP:
		u, err := DecodeUDP(ip.Payload)
		if err != nil {
			return nil, err
		}
		if int(u.Len) != len(ip.Payload) {
			return nil, fmt.Errorf("UDP length %d != IP payload %d", u.Len, len(ip.Payload))
		}
		if u.Csum == 0 && ip.V6 {
			return nil, fmt.Errorf("UDP/IPv6 checksum must not be zero")
		}
		if u.Csum != 0 {
			if cs := inetChecksum(pseudoHeader(ip.Src, ip.Dst, ProtoUDP, len(ip.Payload)), ip.Payload); cs != 0 {
				return nil, fmt.Errorf("UDP checksum wrong")
			}
		}
		pr.Kind, pr.UDP, pr.SPort, pr.DPort = "udp", u, u.Src, u.Dst
	case ip.Proto == ProtoTCP:
		s, err := DecodeTCP(ip.Payload)
		if err != nil {
			return nil, err
		}
		if cs := inetChecksum(pseudoHeader(ip.Src, ip.Dst, ProtoTCP, len(ip.Payload)), ip.Payload); cs != 0 {
			return nil, fmt.Errorf("TCP checksum wrong")
		}
		if _, err := ParseTCPOptions(s.Options); err != nil {
			return nil, err
		}
		switch {
		case s.Flags == TCPSyn:
			pr.Kind = "tcp-syn"
		case s.Flags&TCPAck != 0 && s.Flags&(TCPSyn|TCPRst|TCPFin) == 0:
			pr.Kind = "tcp-ack"
		default:
			return nil, fmt.Errorf("unexpected TCP flags %#x on a probe", s.Flags)
		}
		pr.TCP, pr.SPort, pr.DPort = s, s.Src, s.Dst
	default:
		return nil, fmt.Errorf("unexpected protocol %d", ip.Proto)
	}
	return pr, nil
}
