package harness

// Structure-aware mutation of genuine replies (C09) and the fuzz-bytes decoder.

import (
	"encoding/binary"
)

// MutOp is one edit of a packet.
type MutOp struct {
	Op  string `json:"op"` // truncate | flip | set | insert | delete | extend | ihl | totlen | version | dataoff | proto | raw
	Off int    `json:"off,omitempty"`
	Val int    `json:"val,omitempty"`
	N   int    `json:"n,omitempty"`
	Raw []byte `json:"raw,omitempty"`
}

// MutSpec derives one hostile packet from the genuine reply to the probe with TTL Anchor
// (Anchor 0 = the SACK handshake SYN-ACK).
type MutSpec struct {
	Anchor  int     `json:"anchor"`
	DelayUs int64   `json:"delay_us"`
	Ops     []MutOp `json:"ops"`
}

func clampOff(off, n int) int {
	if n <= 0 {
		return 0
	}
	if off < 0 {
		off = -off
	}
	return off % n
}

// ApplyMut applies the ops to a copy of base.
func ApplyMut(base []byte, ops []MutOp) []byte {
	b := append([]byte(nil), base...)
	for _, o := range ops {
		switch o.Op {
		case "raw":
			b = append([]byte(nil), o.Raw...)
		case "truncate":
			if len(b) > 0 {
				b = b[:clampOff(o.N, len(b)+1)]
			}
		case "flip":
			if len(b) > 0 {
				m := byte(o.Val)
				if m == 0 {
					m = 1
				}
				b[clampOff(o.Off, len(b))] ^= m
			}
		case "set":
			if len(b) > 0 {
				b[clampOff(o.Off, len(b))] = byte(o.Val)
			}
		case "insert":
			i := clampOff(o.Off, len(b)+1)
			ins := o.Raw
			if len(ins) == 0 {
				ins = make([]byte, 1+clampOff(o.N, 16))
				for k := range ins {
					ins[k] = byte(o.Val + k)
				}
			}
			b = append(b[:i:i], append(append([]byte(nil), ins...), b[i:]...)...)
		case "delete":
			if len(b) > 0 {
				i := clampOff(o.Off, len(b))
				n := 1 + clampOff(o.N, 16)
				if i+n > len(b) {
					n = len(b) - i
				}
				b = append(b[:i:i], b[i+n:]...)
			}
		case "extend":
			n := clampOff(o.N, 2200)
			ext := make([]byte, n)
			for k := range ext {
				ext[k] = byte(o.Val + k*7)
			}
			b = append(b, ext...)
		case "ihl":
			if len(b) > 0 {
				b[0] = b[0]&0xf0 | byte(o.Val)&0x0f
			}
		case "version":
			if len(b) > 0 {
				b[0] = b[0]&0x0f | byte(o.Val)<<4
			}
		case "totlen":
			if len(b) >= 6 {
				if b[0]>>4 == 6 {
					binary.BigEndian.PutUint16(b[4:], uint16(o.Val))
				} else {
					binary.BigEndian.PutUint16(b[2:], uint16(o.Val))
				}
			}
		case "proto":
			if len(b) >= 10 {
				if b[0]>>4 == 6 {
					b[6] = byte(o.Val)
				} else {
					b[9] = byte(o.Val)
				}
			}
		case "dataoff":
			// TCP data offset nibble / first option length byte region, relative to the transport header
			if len(b) > 0 {
				off := l4off(b)
				if off+12 < len(b) {
					b[off+12] = byte(o.Val)<<4 | b[off+12]&0x0f
				}
			}
		case "tcpopts":
			// replace the TCP option block wholesale (o.Raw), fixing data offset and IP total length
			if len(b) >= 40 && b[0]>>4 == 4 && b[9] == ProtoTCP {
				off := l4off(b)
				if off+20 <= len(b) {
					old := int(b[off+12]>>4) * 4
					if old < 20 || off+old > len(b) {
						old = 20
					}
					opt := append([]byte(nil), o.Raw...)
					for len(opt)%4 != 0 {
						opt = append(opt, 0)
					}
					if len(opt) > 40 {
						opt = opt[:40]
					}
					nb := append([]byte(nil), b[:off+20]...)
					nb = append(nb, opt...)
					nb = append(nb, b[off+old:]...)
					nb[off+12] = byte((20+len(opt))/4)<<4 | nb[off+12]&0x0f
					binary.BigEndian.PutUint16(nb[2:], uint16(len(nb)))
					b = nb
				}
			}
		case "l4set":
			if len(b) > 0 {
				off := l4off(b)
				i := off + clampOff(o.Off, 64)
				if i < len(b) {
					b[i] = byte(o.Val)
				}
			}
		case "innerset":
			// edit inside the quoted datagram of an ICMP error
			if len(b) > 0 {
				off := l4off(b) + 8
				i := off + clampOff(o.Off, 80)
				if i < len(b) {
					b[i] = byte(o.Val)
				}
			}
		}
	}
	return b
}

// StructurallyValid says whether the independent codec accepts the bytes as a well-formed packet of a
// kind the tool listens to (ICMP error with a decodable quote, echo reply, TCP segment). Only packets
// that are NOT structurally valid are asserted to leave the result unchanged.
// lenientIP decodes like a capture tool does: a length field of 0 (segmentation offload convention) or one
// that exceeds the captured bytes (snap length truncation) means "what was captured".
func lenientIP(b []byte) (*IPPacket, error) {
	c := append([]byte(nil), b...)
	if len(c) >= 20 && c[0]>>4 == 4 {
		tl := int(binary.BigEndian.Uint16(c[2:]))
		if tl == 0 || tl > len(c) {
			binary.BigEndian.PutUint16(c[2:], uint16(len(c)))
		}
	} else if len(c) >= 40 && c[0]>>4 == 6 {
		pl := int(binary.BigEndian.Uint16(c[4:]))
		if pl == 0 || 40+pl > len(c) {
			binary.BigEndian.PutUint16(c[4:], uint16(len(c)-40))
		}
	}
	return DecodeIP(c)
}

func StructurallyValid(b []byte) bool {
	ip, err := lenientIP(b)
	if err != nil {
		return false
	}
	switch {
	case !ip.V6 && ip.Proto == ProtoICMP, ip.V6 && ip.Proto == ProtoICMPv6:
		m, err := DecodeICMP(ip.Payload)
		if err != nil {
			return false
		}
		isErr := (!ip.V6 && (m.Type == 11 || m.Type == 3)) || (ip.V6 && (m.Type == 3 || m.Type == 1))
		if !isErr {
			return true // echo reply or other well-formed ICMP
		}
		if len(m.Body) < 1 {
			return false
		}
		// the quote: header must be present with at least 8 bytes of the original transport header
		q := m.Body
		if ip.V6 {
			return q[0]>>4 == 6 && len(q) >= 48
		}
		// an ICMPv4 error quotes an IPv4 datagram; the version nibble of the quote is not an identifying
		// field (the decoder in use does not look at it), so only the layout is required
		if len(q) < 20 {
			return false
		}
		ihl := int(q[0]&0xf) * 4
		return ihl >= 20 && len(q) >= ihl+8
	case ip.Proto == ProtoTCP:
		s, err := DecodeTCP(ip.Payload)
		if err != nil {
			return false
		}
		opts, err := ParseTCPOptions(s.Options)
		if err != nil {
			return false
		}
		for _, o := range opts {
			// options with a fixed length must have it
			switch o.Kind {
			case 2:
				if len(o.Data) != 2 {
					return false
				}
			case 3:
				if len(o.Data) != 1 {
					return false
				}
			case 4:
				if len(o.Data) != 0 {
					return false
				}
			case 5:
				if len(o.Data) == 0 || len(o.Data)%8 != 0 {
					return false
				}
			case 8:
				if len(o.Data) != 8 {
					return false
				}
			}
		}
		return true
	}
	return false
}

// IsPlainAckOnConnection recognises the one inbound packet that may end a SACK run early: a segment on
// the probed connection (target tuple), not SYN/FIN/RST, carrying no SACK block.
func IsPlainAckOnConnection(b []byte, target, local string, tport, lport uint16) bool {
	ip, err := DecodeIP(b)
	if err != nil || ip.V6 || ip.Proto != ProtoTCP {
		return false
	}
	if ip.Src.String() != target || ip.Dst.String() != local {
		return false
	}
	if len(ip.Payload) < 20 {
		return false
	}
	s, err := DecodeTCP(ip.Payload)
	if err != nil {
		return false
	}
	if s.Src != tport || s.Dst != lport || s.Flags&(TCPSyn|TCPFin|TCPRst) != 0 {
		return false
	}
	opts, _ := ParseTCPOptions(s.Options)
	for _, o := range opts {
		if o.Kind == 5 && len(o.Data) >= 8 {
			return false
		}
	}
	return true
}

// DecodeFuzzMuts turns fuzzer bytes into mutation specs: byte 0 picks how many packets, then per packet
// an anchor selector, a delay selector and a list of (op, off, val) triples; op 0 switches to raw bytes.
func DecodeFuzzMuts(data []byte, minTTL, maxTTL int, withHandshake bool) []MutSpec {
	if len(data) == 0 {
		return nil
	}
	opNames := []string{"raw", "truncate", "flip", "set", "insert", "delete", "extend", "ihl", "totlen", "version", "dataoff", "proto", "l4set", "innerset", "tcpopts"}
	nPk := 1 + int(data[0])%3
	data = data[1:]
	var out []MutSpec
	for p := 0; p < nPk && len(data) >= 2; p++ {
		span := maxTTL - minTTL + 1
		if withHandshake {
			span++
		}
		a := int(data[0]) % span
		m := MutSpec{Anchor: minTTL + a, DelayUs: int64(data[1]%8) * 700}
		if withHandshake {
			m.Anchor = minTTL + a - 1
			if a == 0 {
				m.Anchor = 0
			}
		}
		data = data[2:]
		nOps := 1
		if len(data) > 0 {
			nOps = 1 + int(data[0])%3
			data = data[1:]
		}
		for k := 0; k < nOps && len(data) >= 1; k++ {
			op := opNames[int(data[0])%len(opNames)]
			data = data[1:]
			if op == "raw" {
				n := len(data)
				if p < nPk-1 && n > 0 {
					n = int(data[0]) % (n + 1)
				}
				m.Ops = append(m.Ops, MutOp{Op: "raw", Raw: append([]byte(nil), data[:n]...)})
				data = data[n:]
				break
			}
			o := MutOp{Op: op}
			if op == "tcpopts" {
				n := 0
				if len(data) > 0 {
					n = int(data[0]) % 41
					data = data[1:]
				}
				if n > len(data) {
					n = len(data)
				}
				o.Raw = append([]byte(nil), data[:n]...)
				data = data[n:]
				m.Ops = append(m.Ops, o)
				continue
			}
			if len(data) >= 3 {
				o.Off = int(data[0])
				o.Val = int(data[1])
				o.N = int(data[2])
				if op == "totlen" {
					o.Val = int(data[1])<<8 | int(data[2])
				}
				data = data[3:]
			}
			m.Ops = append(m.Ops, o)
		}
		out = append(out, m)
	}
	return out
}
