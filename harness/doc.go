// Package harness holds the property-based tests and fuzz targets that decide the
// properties in /verif/properties.jsonl against the working tree of /repo.
package harness
