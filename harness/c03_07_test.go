package harness

// Engine-level checks with a scripted TracerouteDriver on the virtual clock:
// C07 (parallel merge is schedule independent) and the engine-level part of C03 (path shape).

import (
	"context"
	"fmt"
	"net/netip"
	"sort"
	"sync"
	"testing"
	"testing/synctest"
	"time"

	"github.com/DataDog/datadog-traceroute/common"
	"pgregory.net/rapid"
)

// Delivery is one scripted reply (or retryable noise) with an explicit virtual time stamp.
type Delivery struct {
	AtNs   int64  `json:"at_ns"` // relative to the engine start
	TTL    int    `json:"ttl"`
	Dest   bool   `json:"dest,omitempty"`
	Noise  string `json:"noise,omitempty"` // "" | nopkt | badpkt
	Serial int    `json:"n"`               // identity of this delivery
}

type EngineCase struct {
	Engine     string     `json:"engine"` // parallel | serial
	MinTTL     int        `json:"min_ttl"`
	MaxTTL     int        `json:"max_ttl"`
	TimeoutNs  int64      `json:"timeout_ns"`
	PollNs     int64      `json:"poll_ns"`
	DelayNs    int64      `json:"delay_ns"`
	Deliveries []Delivery `json:"deliveries"`
	CancelAtNs int64      `json:"cancel_at_ns,omitempty"`
	CancelDL   bool       `json:"cancel_deadline,omitempty"` // see Scenario.CancelDL
	// RealRTT: the driver reports what a real one would: the time from the send of that TTL's probe to the moment the
	// reply is handed over (a reply read late then carries an RTT above the per-hop timeout); otherwise a few microseconds
	RealRTT bool `json:"real_rtt,omitempty"`
	// SlowTTL/SlowNs: the send of this one TTL takes that long (a full socket buffer once), all others SendLagNs
	SlowTTL int   `json:"slow_ttl,omitempty"`
	SlowNs  int64 `json:"slow_ns,omitempty"`
	// SendLagNs: every SendProbe takes this long; with enough probes the sender is still at work when the
	// listening budget (timeout + sum of the send delays) runs out
	SendLagNs int64 `json:"send_lag_ns,omitempty"`
}

type scriptRet struct {
	at time.Duration
	d  Delivery
}

type scriptDriver struct {
	mu       sync.Mutex
	parallel bool
	start    time.Time
	dl       []Delivery
	next     int
	sends    []scriptRet // d.TTL = ttl
	returned []scriptRet
	sendLag  time.Duration // virtual duration of every SendProbe call
	realRTT  bool
	slowTTL  int
	slowLag  time.Duration
	limit    time.Duration // virtual-time watchdog
	overrun  bool
}

var errScriptWatchdog = fmt.Errorf("harness watchdog: virtual time limit exceeded")

func (s *scriptDriver) GetDriverInfo() common.TracerouteDriverInfo {
	return common.TracerouteDriverInfo{SupportsParallel: s.parallel}
}

func (s *scriptDriver) SendProbe(ttl uint8) error {
	s.mu.Lock()
	defer s.mu.Unlock()
	if s.limit > 0 && time.Since(s.start) > s.limit {
		s.overrun = true
		return errScriptWatchdog
	}
	s.sends = append(s.sends, scriptRet{time.Since(s.start), Delivery{TTL: int(ttl)}})
	lag := s.sendLag
	if s.slowTTL != 0 && int(ttl) == s.slowTTL {
		lag = s.slowLag
	}
	if lag > 0 {
		// a send that takes time (full socket buffer, slow device): not under the driver's lock
		s.mu.Unlock()
		time.Sleep(lag)
		s.mu.Lock()
	}
	return nil
}

func (s *scriptDriver) ReceiveProbe(timeout time.Duration) (*common.ProbeResponse, error) {
	deadline := time.Now().Add(timeout)
	for {
		s.mu.Lock()
		now := time.Since(s.start)
		if s.limit > 0 && now > s.limit {
			s.overrun = true
			s.mu.Unlock()
			return nil, errScriptWatchdog
		}
		if s.next < len(s.dl) && time.Duration(s.dl[s.next].AtNs) <= now {
			d := s.dl[s.next]
			s.next++
			s.returned = append(s.returned, scriptRet{now, d})
			s.mu.Unlock()
			switch d.Noise {
			case "nopkt":
				return nil, common.ErrPacketDidNotMatchTraceroute
			case "badpkt":
				return nil, &common.BadPacketError{Err: fmt.Errorf("scripted bad packet %d", d.Serial)}
			}
			rtt := time.Duration(d.Serial+1) * time.Microsecond
			if s.realRTT {
				s.mu.Lock()
				for _, sd := range s.sends {
					if sd.d.TTL == d.TTL && now >= sd.at {
						rtt = now - sd.at
						break
					}
				}
				s.mu.Unlock()
			}
			return &common.ProbeResponse{TTL: uint8(d.TTL), IP: respAddr(d), RTT: rtt, IsDest: d.Dest}, nil
		}
		wait := time.Until(deadline)
		if s.next < len(s.dl) {
			if w := time.Duration(s.dl[s.next].AtNs) - now; w < wait {
				wait = w
			}
		}
		s.mu.Unlock()
		if !time.Now().Before(deadline) {
			return nil, &common.ReceiveProbeNoPktError{Err: fmt.Errorf("scripted timeout")}
		}
		time.Sleep(wait)
	}
}

func respAddr(d Delivery) netip.Addr {
	return netip.AddrFrom4([4]byte{10, byte(d.Serial >> 8), byte(d.Serial), byte(d.TTL)})
}

type engineOutcome struct {
	res      []*common.ProbeResponse
	err      error
	panicked string
	drv      *scriptDriver
	elapsed  time.Duration
}

func runEngine(t *testing.T, c *EngineCase) *engineOutcome {
	out := &engineOutcome{}
	dl := append([]Delivery(nil), c.Deliveries...)
	sort.SliceStable(dl, func(i, j int) bool { return dl[i].AtNs < dl[j].AtNs })
	func() {
		defer func() {
			if r := recover(); r != nil {
				out.panicked = fmt.Sprint(r)
			}
		}()
		synctest.Test(t, func(t *testing.T) {
			drv := &scriptDriver{parallel: c.Engine == "parallel", start: time.Now(), dl: dl, sendLag: time.Duration(c.SendLagNs), realRTT: c.RealRTT, slowTTL: c.SlowTTL, slowLag: time.Duration(c.SlowNs)}
			nn := time.Duration(c.MaxTTL - c.MinTTL + 1)
			drv.limit = 3*(nn*time.Duration(c.TimeoutNs+c.PollNs+c.DelayNs+c.SendLagNs)) + time.Second
			out.drv = drv
			p := common.TracerouteParams{MinTTL: uint8(c.MinTTL), MaxTTL: uint8(c.MaxTTL), TracerouteTimeout: time.Duration(c.TimeoutNs),
				PollFrequency: time.Duration(c.PollNs), SendDelay: time.Duration(c.DelayNs)}
			ctx, cancel := context.WithCancel(context.Background())
			defer cancel()
			if c.CancelAtNs > 0 {
				ctx = endingAt(ctx, cancel, time.Duration(c.CancelAtNs), c.CancelDL)
			}
			func() {
				defer func() {
					if r := recover(); r != nil {
						out.panicked = fmt.Sprint(r)
					}
				}()
				if c.Engine == "parallel" {
					out.res, out.err = common.TracerouteParallel(ctx, drv, common.TracerouteParallelParams{TracerouteParams: p})
				} else {
					out.res, out.err = common.TracerouteSerial(ctx, drv, common.TracerouteSerialParams{TracerouteParams: p})
				}
			}()
			out.elapsed = time.Since(drv.start)
			cancel()
		})
	}()
	return out
}

// refEngine folds the log of what ReceiveProbe returned: first reply per TTL wins, a destination
// reply replaces a non-destination one; the list is clipped at the lowest destination TTL.
func refEngine(c *EngineCase, o *engineOutcome) (hops []*Delivery, destTTL int) {
	tab := make([]*Delivery, 256)
	for i := range o.drv.returned {
		d := o.drv.returned[i].d
		if d.Noise != "" {
			continue
		}
		cur := tab[d.TTL]
		if cur == nil || (!cur.Dest && d.Dest) {
			dd := d
			tab[d.TTL] = &dd
		}
		if c.Engine == "serial" && d.Dest {
			break
		}
	}
	last := c.MaxTTL
	for t := 0; t <= c.MaxTTL; t++ {
		if tab[t] != nil && tab[t].Dest {
			last, destTTL = t, t
			break
		}
	}
	if last < c.MinTTL {
		return nil, destTTL
	}
	return tab[c.MinTTL : last+1], destTTL
}

// checkEngine returns diffs for C07 (merge), C03 (shape) and bookkeeping facts.
func checkEngine(t *testing.T, c *EngineCase) ([]Diff, *engineOutcome) {
	o := runEngine(t, c)
	var ds []Diff
	if o.panicked != "" {
		return []Diff{{"C07", "panic", o.panicked}, {"C03", "panic", o.panicked}}, o
	}
	if o.err != nil {
		return []Diff{{"C07", "error", o.err.Error()}, {"C03", "error", o.err.Error()}}, o
	}
	ref, destTTL := refEngine(c, o)
	// a destination reply for a TTL below the first TTL cannot come from a real driver (validateProbe rejects it)
	res := o.res
	// ---- C03 shape ----
	if len(res) == 0 {
		ds = append(ds, Diff{"C03", "empty", "engine returned an empty list"})
	}
	wantLen := c.MaxTTL - c.MinTTL + 1
	if destTTL != 0 {
		wantLen = destTTL - c.MinTTL + 1
	}
	if len(res) != wantLen {
		ds = append(ds, Diff{"C03", "length", fmt.Sprintf("%d entries, want %d (first %d, last %d, lowest accepted destination TTL %d)", len(res), wantLen, c.MinTTL, c.MaxTTL, destTTL)})
	}
	for i, r := range res {
		if r == nil {
			continue
		}
		if int(r.TTL) != c.MinTTL+i {
			ds = append(ds, Diff{"C03", "ttl-sequence", fmt.Sprintf("entry %d has TTL %d, want %d", i, r.TTL, c.MinTTL+i)})
		}
		if r.IsDest && i != len(res)-1 {
			ds = append(ds, Diff{"C03", "dest-not-last", fmt.Sprintf("entry %d (TTL %d) is destination but not last of %d", i, r.TTL, len(res))})
		}
	}
	hops, err := common.ToHops(common.TracerouteParams{MinTTL: uint8(c.MinTTL), MaxTTL: uint8(c.MaxTTL)}, res)
	if err != nil {
		ds = append(ds, Diff{"C03", "tohops", "ToHops failed on the engine's own output: " + err.Error()})
	} else {
		for i, h := range hops {
			if h.TTL != c.MinTTL+i {
				ds = append(ds, Diff{"C03", "tohops-ttl", fmt.Sprintf("hop %d TTL %d want %d", i, h.TTL, c.MinTTL+i)})
			}
			if (len(h.IPAddress) == 0) != (res[i] == nil) {
				ds = append(ds, Diff{"C03", "tohops-empty", fmt.Sprintf("hop %d emptiness differs from engine entry", i)})
			}
		}
	}
	// ---- C07 merge rule ----
	for i := 0; i < len(res) && i < len(ref); i++ {
		r, w := res[i], ref[i]
		switch {
		case r == nil && w != nil:
			ds = append(ds, Diff{"C07", "reply-lost", fmt.Sprintf("TTL %d empty but delivery #%d was returned by ReceiveProbe", c.MinTTL+i, w.Serial)})
		case r != nil && w == nil:
			ds = append(ds, Diff{"C07", "reply-invented", fmt.Sprintf("TTL %d filled (%s) but no delivery for it was returned", c.MinTTL+i, r.IP)})
		case r != nil && w != nil:
			if r.IP != respAddr(*w) || r.IsDest != w.Dest {
				ds = append(ds, Diff{"C07", "wrong-reply-kept", fmt.Sprintf("TTL %d holds %s dest=%v, merge rule selects delivery #%d (%s dest=%v)", c.MinTTL+i, r.IP, r.IsDest, w.Serial, respAddr(*w), w.Dest)})
			}
		}
	}
	if len(res) != len(ref) {
		ds = append(ds, Diff{"C07", "clip", fmt.Sprintf("%d entries, merge rule over the returned log gives %d", len(res), len(ref))})
	}
	// every delivery that was due at least one poll before the deadline must have been returned
	if c.Engine == "parallel" && c.CancelAtNs == 0 {
		deadline := c.TimeoutNs + c.DelayNs*int64(c.MaxTTL-c.MinTTL+1)
		got := map[int]bool{}
		for _, r := range o.drv.returned {
			got[r.d.Serial] = true
		}
		for _, d := range c.Deliveries {
			// the reader only starts once the first SendProbe has returned
			if max(d.AtNs, c.SendLagNs) <= deadline-c.PollNs && !got[d.Serial] {
				ds = append(ds, Diff{"C07", "not-received", fmt.Sprintf("delivery #%d due at %v (deadline %v, poll %v) was never taken from the driver", d.Serial, time.Duration(d.AtNs), time.Duration(deadline), time.Duration(c.PollNs))})
				break
			}
		}
		// the same fact in C03's terms: the list ends at the lowest TTL the destination answered in time
		for _, d := range c.Deliveries {
			if d.Noise == "" && d.Dest && max(d.AtNs, c.SendLagNs) <= deadline-c.PollNs && len(res) > d.TTL-c.MinTTL+1 {
				ds = append(ds, Diff{"C03", "runs-past-destination", fmt.Sprintf("the destination's answer for TTL %d was due at %v (deadline %v, poll %v) but the list has %d entries from TTL %d", d.TTL, time.Duration(d.AtNs), time.Duration(deadline), time.Duration(c.PollNs), len(res), c.MinTTL)})
				break
			}
		}
		// sender stops after a destination reply was returned (one in flight allowed)
		var destAt time.Duration = -1
		for _, r := range o.drv.returned {
			if r.d.Noise == "" && r.d.Dest {
				destAt = r.at
				break
			}
		}
		if destAt >= 0 {
			after := 0
			for _, s := range o.drv.sends {
				if s.at > destAt {
					after++
				}
			}
			if after > 1 {
				ds = append(ds, Diff{"C07", "send-after-dest", fmt.Sprintf("%d probes sent after a destination reply was returned at %v", after, destAt)})
			}
		}
	}
	// send order
	for i, s := range o.drv.sends {
		if s.d.TTL != c.MinTTL+i {
			ds = append(ds, Diff{"C03", "send-order", fmt.Sprintf("send #%d has TTL %d", i, s.d.TTL)})
			break
		}
	}
	return ds, o
}

func engineNonTrivialC07(c *EngineCase, o *engineOutcome) bool {
	if o.drv == nil {
		return false
	}
	seen := map[int]*Delivery{}
	destTTLs := map[int]bool{}
	nt := false
	for i := range o.drv.returned {
		d := o.drv.returned[i].d
		if d.Noise != "" {
			continue
		}
		if p := seen[d.TTL]; p != nil {
			nt = true // duplicate (possibly a destination override)
		}
		dd := d
		seen[d.TTL] = &dd
		if d.Dest {
			destTTLs[d.TTL] = true
		}
	}
	return nt || len(destTTLs) >= 2
}

func engineNonTrivialC03(c *EngineCase, o *engineOutcome) bool {
	if o.drv == nil {
		return false
	}
	destTTLs := map[int]bool{}
	answered := map[int]bool{}
	for _, r := range o.drv.returned {
		if r.d.Noise == "" {
			answered[r.d.TTL] = true
			if r.d.Dest {
				destTTLs[r.d.TTL] = true
			}
		}
	}
	gap := false
	for t := c.MinTTL; t < c.MinTTL+len(o.res)-1; t++ {
		if !answered[t] {
			gap = true
		}
	}
	return len(destTTLs) >= 2 || c.MinTTL > 1 || c.MaxTTL == 255 || gap
}

// slotTimes lists the interesting instants relative to the send instants of a parallel run.
func slotTimes(n int, delay, timeout, poll int64) []int64 {
	var s []int64
	for k := 0; k < n; k++ {
		at := int64(k) * delay
		s = append(s, at-1, at, at+1)
		if delay > 2 {
			s = append(s, at+delay/2)
		}
	}
	deadline := timeout + delay*int64(n)
	s = append(s, int64(n)*delay+1, deadline-poll, deadline-1, deadline+1)
	out := s[:0]
	seen := map[int64]bool{}
	for _, x := range s {
		if x < 0 {
			x = 0
		}
		if !seen[x] {
			seen[x] = true
			out = append(out, x)
		}
	}
	return out
}

func genEngineCase(t *rapid.T, engine string) *EngineCase {
	c := &EngineCase{Engine: engine}
	if engine == "" {
		c.Engine = oneOf(t, "engine", "parallel", "serial")
	}
	c.MinTTL, c.MaxTTL = genTTLRange(t, 40)
	// delays that are not whole milliseconds are legal for library callers (time.Duration); the deadline must count them in full
	c.DelayNs = oneOf(t, "delay", int64(0), 1000, 1_000_000, 10_000_000, 900_000, 1_500_000, 2_999_999)
	c.PollNs = oneOf(t, "poll", int64(1_000_000), 10_000_000, 100_000_000)
	c.TimeoutNs = oneOf(t, "timeout", int64(20_000_000), 100_000_000, 1_000_000_000)
	n := c.MaxTTL - c.MinTTL + 1
	slots := slotTimes(n, c.DelayNs, c.TimeoutNs, c.PollNs)
	if c.Engine == "parallel" {
		c.SendLagNs = oneOf(t, "send_lag", int64(0), 0, 0, 1000, c.TimeoutNs/int64(n), 2*c.TimeoutNs/int64(n)+1)
	}
	c.RealRTT = oneOf(t, "real_rtt", false, false, true)
	nd := rapid.IntRange(0, min(6*n, 60)).Draw(t, "n_deliveries")
	for i := 0; i < nd; i++ {
		d := Delivery{Serial: i}
		d.TTL = rapid.IntRange(c.MinTTL, c.MaxTTL).Draw(t, fmt.Sprintf("d%d_ttl", i))
		d.Dest = oneOf(t, fmt.Sprintf("d%d_dest", i), false, false, false, true)
		d.Noise = oneOf(t, fmt.Sprintf("d%d_noise", i), "", "", "", "", "nopkt", "badpkt")
		if rapid.Bool().Draw(t, fmt.Sprintf("d%d_slot", i)) {
			d.AtNs = slots[rapid.IntRange(0, len(slots)-1).Draw(t, fmt.Sprintf("d%d_slotidx", i))]
		} else {
			d.AtNs = rapid.Int64Range(0, c.TimeoutNs+c.DelayNs*int64(n)+c.PollNs).Draw(t, fmt.Sprintf("d%d_at", i))
		}
		c.Deliveries = append(c.Deliveries, d)
	}
	return c
}

func TestC07(t *testing.T) {
	rec := NewRecorder("C07", "C07", "rapid: parallel engine driven by a scripted driver whose deliveries carry explicit virtual time stamps drawn from slots around the send instants (send_k-1ns, send_k, send_k+1ns, mid-gap, after last send, deadline-poll, deadline+-1ns) or uniformly; up to 40 TTLs, 60 deliveries incl. retryable noise; oracle: output == fold(first wins, destination overrides, clip at lowest destination) over the log of what ReceiveProbe returned, every delivery due >= 1 poll before the deadline was taken, sender stops after a destination reply; non-trivial = returned log has a duplicate/override or destination replies for >= 2 TTLs")
	RunProp(t, rec, func(rt *rapid.T) *EngineCase { return genEngineCase(rt, "parallel") }, func(t *testing.T, c *EngineCase, rec *Recorder) []Diff {
		ds, o := checkEngine(t, c)
		rec.Case(scenarioKey(c), engineNonTrivialC07(c, o), c)
		return ds
	})
}

// enumEngine enumerates every delivery sequence up to the bound.
func enumEngine(engine string, maxTTLs, maxDeliveries int, yield func(*EngineCase) bool) {
	for n := 1; n <= maxTTLs; n++ {
		base := EngineCase{Engine: engine, MinTTL: 1, MaxTTL: n, TimeoutNs: 20_000_000, PollNs: 1_000_000, DelayNs: 1_000_000}
		slots := slotTimes(n, base.DelayNs, base.TimeoutNs, base.PollNs)
		type opt struct {
			ttl  int
			dest bool
			at   int64
		}
		var opts []opt
		for ttl := 1; ttl <= n; ttl++ {
			for _, dest := range []bool{false, true} {
				for _, at := range slots {
					opts = append(opts, opt{ttl, dest, at})
				}
			}
		}
		var rec func(prefix []Delivery, depth int) bool
		rec = func(prefix []Delivery, depth int) bool {
			c := base
			c.Deliveries = append([]Delivery(nil), prefix...)
			if !yield(&c) {
				return false
			}
			if depth == maxDeliveries {
				return true
			}
			for _, o := range opts {
				if !rec(append(prefix, Delivery{AtNs: o.at, TTL: o.ttl, Dest: o.dest, Serial: depth}), depth+1) {
					return false
				}
			}
			return true
		}
		if !rec(nil, 0) {
			return
		}
	}
}

func TestC07Bounded(t *testing.T) {
	maxT, maxD := 2, 2
	if tier() == "thorough" {
		maxT, maxD = 3, 3
	}
	rec := NewRecorder("C07", "C07Bounded", fmt.Sprintf("bounded enumeration: TTL count <= %d x delivery sequences of length <= %d x (TTL, destination flag, every time slot around the send instants and the deadline); exhaustive over that bound; same oracle", maxT, maxD))
	rec.Exhaustive = true
	RunCases(t, rec, func(yield func(*EngineCase) bool) { enumEngine("parallel", maxT, maxD, yield) }, func(t *testing.T, c *EngineCase, rec *Recorder) []Diff {
		ds, o := checkEngine(t, c)
		rec.Case(scenarioKey(c), engineNonTrivialC07(c, o), c)
		return ds
	})
}

func TestC03Engine(t *testing.T) {
	rec := NewRecorder("C03", "C03Engine", "rapid: both engines driven by a scripted driver answering a generated subset of TTLs (any number as destination, duplicates, late replies, retryable noise) for generated (first,last); shape predicate incl. ToHops; non-trivial = >=2 destination TTLs, or first > 1, or last = 255, or an unanswered TTL before the end")
	RunProp(t, rec, func(rt *rapid.T) *EngineCase { return genEngineCase(rt, "") }, func(t *testing.T, c *EngineCase, rec *Recorder) []Diff {
		ds, o := checkEngine(t, c)
		rec.Case(scenarioKey(c), engineNonTrivialC03(c, o), c, "engine:"+c.Engine)
		return ds
	})
}

// TestC06Engine: the emission rules that belong to the engines themselves, for both of them, with a scripted
// driver (so that a destination reply can be attributed to an earlier TTL than the one being probed, which
// the SYN driver never does): TTLs are probed in order, each once; consecutive probes are at least the send
// delay apart; after a destination reply has been handed to the engine at most one further probe leaves.
func TestC06Engine(t *testing.T) {
	rec := NewRecorder("C06", "C06Engine", "rapid: both engines driven by a scripted driver (destination replies for any probed TTL at generated instants, also late ones that arrive while a later TTL is being probed; a quarter of the parallel cases with one send that blocks for 1..10 send delays); oracle over the driver's send log: TTLs first..k in order, each once, consecutive sends >= the send delay apart, at most one send after the first destination reply was returned to the engine; non-trivial = a destination reply was returned while a later TTL was already probed")
	RunProp(t, rec, func(rt *rapid.T) *EngineCase {
		c := genEngineCase(rt, "")
		// a quarter of the parallel cases: one send blocks for one to several send delays, the others return at once
		if c.Engine == "parallel" && c.DelayNs > 0 && c.MaxTTL > c.MinTTL && oneOf(rt, "slow_send", false, false, false, true) {
			c.SendLagNs = 0
			c.SlowTTL = rapid.IntRange(c.MinTTL, c.MaxTTL-1).Draw(rt, "slow_ttl")
			c.SlowNs = oneOf(rt, "slow_ns", c.DelayNs, 2*c.DelayNs+1, 7*c.DelayNs/2, 10*c.DelayNs)
		}
		return c
	}, func(t *testing.T, c *EngineCase, rec *Recorder) []Diff {
		o := runEngine(t, c)
		var ds []Diff
		add := func(sig, f string, a ...any) { ds = append(ds, Diff{"C06", sig, fmt.Sprintf(f, a...)}) }
		if o.panicked != "" || o.drv == nil {
			rec.Case(scenarioKey(c), false, nil, "other:crash")
			return []Diff{{"C09", "crash", o.panicked}}
		}
		for i, s := range o.drv.sends {
			if s.d.TTL != c.MinTTL+i {
				add("ttl-order", "send #%d has TTL %d, expected %d", i, s.d.TTL, c.MinTTL+i)
				break
			}
			if i > 0 && s.at-o.drv.sends[i-1].at < time.Duration(c.DelayNs) {
				add("pacing", "probes TTL %d and %d only %v apart (send delay %v)", o.drv.sends[i-1].d.TTL, s.d.TTL, s.at-o.drv.sends[i-1].at, time.Duration(c.DelayNs))
				break
			}
		}
		if len(o.drv.sends) > c.MaxTTL-c.MinTTL+1 {
			add("too-many", "%d probes for the range %d..%d", len(o.drv.sends), c.MinTTL, c.MaxTTL)
		}
		var destAt time.Duration = -1
		destTTL, late := 0, false
		for _, r := range o.drv.returned {
			if r.d.Noise == "" && r.d.Dest {
				destAt, destTTL = r.at, r.d.TTL
				break
			}
		}
		if destAt >= 0 {
			after := 0
			for _, s := range o.drv.sends {
				if s.at > destAt {
					after++
				}
				if s.at <= destAt && s.d.TTL > destTTL {
					late = true
				}
			}
			if after > 1 {
				add("send-after-dest", "%s engine: %d probes left after the destination reply (for TTL %d) was returned to the engine at %v", c.Engine, after, destTTL, destAt)
			}
		}
		rec.Case(scenarioKey(c), late, c, "engine:"+c.Engine)
		return ds
	})
}

// TestC03OutOfRange: the engine's own validation of what a driver hands back. A reply attributed to a TTL
// outside the probed range (below the first TTL, 0, above the last TTL) must never bend the shape of a
// successful run: either the run fails, or its hop list is still non-empty, consecutive from the first TTL
// and ends at the only destination entry. No real driver returns such a TTL; the engines do not rely on that.
func TestC03OutOfRange(t *testing.T) {
	rec := NewRecorder("C03", "C03OutOfRange", "rapid: both engines with a scripted driver that, among in-range deliveries, returns 1..3 replies attributed to a TTL outside the probed range (0, first-2, first-1, last+1, 255; destination or not); oracle: no panic, and the run fails or its list has the C03 shape (non-empty, consecutive TTLs from the first, at most one destination entry and only at the end, ToHops succeeds); non-trivial = first > 1 and an out-of-range destination reply below the first TTL")
	RunProp(t, rec, func(rt *rapid.T) *EngineCase {
		c := genEngineCase(rt, "")
		if len(c.Deliveries) > 12 {
			c.Deliveries = c.Deliveries[:12]
		}
		n := rapid.IntRange(1, 3).Draw(rt, "n_out")
		for i := 0; i < n; i++ {
			d := Delivery{Serial: 1000 + i}
			d.TTL = oneOf(rt, fmt.Sprintf("o%d_ttl", i), 0, c.MinTTL-2, c.MinTTL-1, c.MinTTL-1, c.MaxTTL+1, 255)
			if d.TTL < 0 {
				d.TTL = 0
			}
			if d.TTL > 255 {
				d.TTL = 255
			}
			d.Dest = rapid.Bool().Draw(rt, fmt.Sprintf("o%d_dest", i))
			d.AtNs = rapid.Int64Range(0, c.TimeoutNs/2).Draw(rt, fmt.Sprintf("o%d_at", i))
			c.Deliveries = append(c.Deliveries, d)
		}
		return c
	}, func(t *testing.T, c *EngineCase, rec *Recorder) []Diff {
		o := runEngine(t, c)
		nt := false
		for _, d := range c.Deliveries {
			if d.Serial >= 1000 && d.Dest && d.TTL < c.MinTTL && c.MinTTL > 1 {
				nt = true
			}
		}
		label := "outcome:success"
		if o.err != nil {
			label = "outcome:rejected"
		}
		rec.Case(scenarioKey(c), nt, c, "engine:"+c.Engine, label)
		if o.panicked != "" {
			return []Diff{{"C03", "panic", "a reply attributed to a TTL outside the probed range crashed the engine: " + o.panicked}}
		}
		if o.err != nil {
			return nil
		}
		var ds []Diff
		res := o.res
		if len(res) == 0 {
			ds = append(ds, Diff{"C03", "empty", "successful run with an empty hop list"})
		}
		if len(res) > c.MaxTTL-c.MinTTL+1 {
			ds = append(ds, Diff{"C03", "length", fmt.Sprintf("%d entries for the range %d..%d", len(res), c.MinTTL, c.MaxTTL)})
		}
		for i, r := range res {
			if r == nil {
				continue
			}
			if int(r.TTL) != c.MinTTL+i {
				ds = append(ds, Diff{"C03", "ttl-sequence", fmt.Sprintf("entry %d has TTL %d, want %d", i, r.TTL, c.MinTTL+i)})
			}
			if r.IsDest && i != len(res)-1 {
				ds = append(ds, Diff{"C03", "dest-not-last", fmt.Sprintf("entry %d (TTL %d) is destination but not last of %d", i, r.TTL, len(res))})
			}
		}
		if _, err := common.ToHops(common.TracerouteParams{MinTTL: uint8(c.MinTTL), MaxTTL: uint8(c.MaxTTL)}, res); err != nil {
			ds = append(ds, Diff{"C03", "tohops", "ToHops failed on the engine's own output: " + err.Error()})
		}
		return ds
	})
}

// TestC03AllPairs runs every (first,last) pair with a small sampled answer set (thorough) or a stride (quick).
func TestC03AllPairs(t *testing.T) {
	stride := 7
	if tier() == "thorough" {
		stride = 1
	}
	rec := NewRecorder("C03", "C03AllPairs", fmt.Sprintf("every pair 1 <= first <= last <= 255 with stride %d x both engines x 3 answer patterns (none, destination at two TTLs, every second TTL); exhaustive over the pairs when stride is 1", stride))
	rec.Exhaustive = stride == 1
	RunCases(t, rec, func(yield func(*EngineCase) bool) {
		for first := 1; first <= 255; first += stride {
			for last := first; last <= 255; last += stride {
				for _, eng := range []string{"parallel", "serial"} {
					for pat := 0; pat < 3; pat++ {
						c := &EngineCase{Engine: eng, MinTTL: first, MaxTTL: last, TimeoutNs: 2_000_000, PollNs: 1_000_000, DelayNs: 1000}
						switch pat {
						case 1:
							mid := (first + last) / 2
							c.Deliveries = []Delivery{{AtNs: 100, TTL: last, Dest: true, Serial: 0}, {AtNs: 200, TTL: mid, Dest: true, Serial: 1}, {AtNs: 300, TTL: first, Serial: 2}}
						case 2:
							for tt, k := first, 0; tt <= last && k < 20; tt, k = tt+2, k+1 {
								c.Deliveries = append(c.Deliveries, Delivery{AtNs: int64(100 * (k + 1)), TTL: tt, Serial: k})
							}
						}
						if eng == "serial" {
							// the serial engine needs last-first+1 windows; keep them tiny
							c.TimeoutNs, c.PollNs = 2000, 1000
						}
						if !yield(c) {
							return
						}
					}
				}
			}
		}
	}, func(t *testing.T, c *EngineCase, rec *Recorder) []Diff {
		ds, o := checkEngine(t, c)
		rec.Case(scenarioKey(c), engineNonTrivialC03(c, o), nil, "engine:"+c.Engine)
		return ds
	})
}
