//go:build verif

package harness

import (
	"compress/gzip"
	"context"
	"fmt"
	"net"
	"net/http"
	"net/http/httptest"
	"strings"
	"sync"
	"testing"
	"time"

	"github.com/DataDog/datadog-traceroute/cache"
	"github.com/DataDog/datadog-traceroute/publicip"
	gocache "github.com/patrickmn/go-cache"
)

// TestC18ProductionClient: public-IP discovery with the fetcher exactly as the plain constructor makes it (its own
// HTTP client and transport, which the scripted-transport jobs replace), against real HTTP servers on loopback
// that stand in for the providers (real clock, a few hundred milliseconds per case).
func TestC18ProductionClient(t *testing.T) {
	rec := NewRecorder("C18", "C18ProductionClient", "enumeration, real clock, real HTTP over loopback: the fetcher from the plain constructor against five provider servers whose answers are plain / padded IPv4, compressed and full-notation IPv6 (up to 39 characters, with leading blank lines), sent at once, in two flushes (chunked), gzip-coded, behind a redirect, or with status 404 / 200 + invalid body on the earlier providers; oracle: the address returned is exactly the first valid provider answer, later providers are not asked, a second call is served from the cache without any request; exhaustive over that table")
	rec.Exhaustive = true
	type prodCase struct {
		Name   string   `json:"name"`
		Bodies []string `json:"bodies"` // per provider: "" = 404, "!x" = 200 with body x, otherwise the address text
		Mode   string   `json:"mode"`   // plain | chunked | redirect
	}
	full6 := "2001:0db8:85a3:0000:0000:8a2e:0370:7334"
	cases := []*prodCase{
		{"ipv4", []string{"203.0.113.45\n"}, "plain"},
		{"ipv4-padded", []string{"\n  198.151.100.123  \r\n"}, "plain"},
		{"ipv6-compressed", []string{"2001:db8::1:8a2e:7334\n"}, "plain"},
		{"ipv6-full", []string{full6 + "\n"}, "plain"},
		{"ipv6-full-leading-lines", []string{"\n\n\n" + full6 + "\r\n"}, "plain"},
		{"ipv4-two-flushes", []string{"203.0.113.45\n"}, "chunked"},
		{"ipv6-two-flushes", []string{full6 + "\n"}, "chunked"},
		{"ipv4-redirect", []string{"203.0.113.46\n"}, "redirect"},
		{"ipv4-gzip", []string{"203.0.113.47\n", "198.51.100.9\n"}, "gzip"},
		{"ipv6-gzip-only-provider", []string{full6 + "\n"}, "gzip"},
		{"second-provider", []string{"", "198.51.100.7\n"}, "plain"},
		{"third-provider-after-invalid", []string{"!<html>no</html>", "", "2a01:cb00:12:3400:5678:9abc:def0:1234\n"}, "plain"},
		{"long-valid-then-short", []string{"   " + full6 + "\n", "192.0.2.99\n"}, "plain"},
	}
	RunCases(t, rec, func(yield func(*prodCase) bool) {
		for _, c := range cases {
			if !yield(c) {
				return
			}
		}
	}, func(t *testing.T, c *prodCase, rec *Recorder) []Diff {
		var ds []Diff
		add := func(sig, f string, a ...any) { ds = append(ds, Diff{"C18", sig, fmt.Sprintf(f, a...)}) }
		var mu sync.Mutex
		hits := make([]int, 5)
		var servers []*httptest.Server
		var urls []string
		for i := 0; i < 5; i++ {
			i := i
			srv := httptest.NewServer(http.HandlerFunc(func(w http.ResponseWriter, r *http.Request) {
				mu.Lock()
				hits[i]++
				mu.Unlock()
				body := ""
				if i < len(c.Bodies) {
					body = c.Bodies[i]
				}
				switch {
				case body == "":
					http.Error(w, "nope", http.StatusNotFound)
				case strings.HasPrefix(body, "!"):
					fmt.Fprint(w, body[1:])
				case c.Mode == "redirect" && r.URL.Path != "/final":
					http.Redirect(w, r, "/final", http.StatusFound)
				case c.Mode == "gzip" && i == 0:
					// a provider (or a CDN in front of it) that compresses whatever the request says it accepts
					w.Header().Set("Content-Encoding", "gzip")
					zw := gzip.NewWriter(w)
					fmt.Fprint(zw, body)
					zw.Close()
				case c.Mode == "chunked":
					k := len(body) / 2
					fmt.Fprint(w, body[:k])
					if f, ok := w.(http.Flusher); ok {
						f.Flush()
					}
					time.Sleep(30 * time.Millisecond)
					fmt.Fprint(w, body[k:])
				default:
					fmt.Fprint(w, body)
				}
			}))
			servers = append(servers, srv)
			urls = append(urls, srv.URL+"/")
		}
		defer func() {
			for _, s := range servers {
				s.Close()
			}
		}()
		old := publicip.VerifIPCheckers()
		publicip.VerifSetIPCheckers(urls)
		defer publicip.VerifSetIPCheckers(old)
		oldCache := cache.Cache
		cache.Cache = gocache.New(5*time.Minute, 0)
		defer func() { cache.Cache = oldCache }()
		want, wantIdx := "", -1
		for i, b := range c.Bodies {
			if b != "" && !strings.HasPrefix(b, "!") {
				want, wantIdx = strings.TrimSpace(b), i
				break
			}
		}
		f := publicip.NewPublicIPFetcher()
		ctx, cancel := context.WithTimeout(context.Background(), 15*time.Second)
		defer cancel()
		got, err := f.GetIP(ctx)
		if err != nil || !got.Equal(net.ParseIP(want)) {
			add("wrong-address", "%s: the first valid answer is %q (provider %d), the fetcher returned %v, %v", c.Name, want, wantIdx+1, got, err)
		}
		mu.Lock()
		for i := wantIdx + 1; i < 5; i++ {
			if hits[i] > 0 {
				add("asked-after-first-valid", "%s: provider %d was asked although provider %d had given a valid address", c.Name, i+1, wantIdx+1)
			}
		}
		before := append([]int(nil), hits...)
		mu.Unlock()
		got2, err2 := f.GetIP(ctx)
		mu.Lock()
		for i := range hits {
			if hits[i] != before[i] && err == nil {
				add("stored-success-requeried", "%s: a second call asked provider %d again although the first call had succeeded", c.Name, i+1)
			}
		}
		mu.Unlock()
		if err == nil && (err2 != nil || !got2.Equal(got)) {
			add("cache-changed-answer", "%s: first call %v, second call %v, %v", c.Name, got, got2, err2)
		}
		rec.CaseEnumerated(wantIdx > 0 || len(want) > 15 || c.Mode != "plain", map[string]any{"case": c, "returned": fmt.Sprint(got)}, "mode:"+c.Mode)
		return ds
	})
}
