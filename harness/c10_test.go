package harness

// C10: failure atomicity, cause-preserving errors, handles closed exactly once (fault enumeration).

import (
	"errors"
	"fmt"
	"testing"

	"pgregory.net/rapid"
)

func c10Base(v string, first, last int) *Scenario {
	sc := &Scenario{Variant: v, Strict: false, MinTTL: first, MaxTTL: last, TimeoutMs: 60, DelayMs: 2, PollMs: 10, Target: "93.184.216.34", Port: 443,
		EchoBase: 7, PktIDBase: 0x100, SeqMode: "fixed", SeqBase: 0x01020304,
		Script: FlowScript{DestDist: last, Default: HopSpec{DelayUs: 4000}},
		Sack:   SackCfg{Permit: true, TS: true, ClientNxt: 0x10203040, ServerISN: 0x0a0b0c0d, SynAckUs: 1000}}
	if sc.IsV6() {
		sc.Target = "2001:db8:ffff::1"
	}
	if v == "sack" {
		sc.Target, sc.Port = "127.9.8.7", 0
	}
	return sc
}

type opCount struct {
	Kind   string
	Handle int
	Op     string
	N      int
}

// countOps runs the scenario fault-free and counts every operation of every handle.
func countOps(t *testing.T, sc *Scenario) ([]opCount, *Outcome) {
	clean := *sc
	clean.Faults = nil
	o := RunScenario(t, &clean)
	if o.Wire == nil {
		return nil, o
	}
	m := map[string]*opCount{}
	var order []string
	for _, e := range o.Wire.Ledger {
		if e.Kind != "sink" && e.Kind != "source" || e.Op == "New" {
			continue
		}
		k := fmt.Sprintf("%s/%d/%s", e.Kind, e.Handle, e.Op)
		if m[k] == nil {
			m[k] = &opCount{Kind: e.Kind, Handle: e.Handle, Op: e.Op}
			order = append(order, k)
		}
		m[k].N++
	}
	var out []opCount
	for _, k := range order {
		out = append(out, *m[k])
	}
	return out, o
}

func sameHops(a, b *Outcome) string {
	if a.Run == nil || b.Run == nil {
		return "missing run"
	}
	if len(a.Run.Hops) != len(b.Run.Hops) {
		return fmt.Sprintf("%d vs %d hops", len(a.Run.Hops), len(b.Run.Hops))
	}
	for i := range a.Run.Hops {
		x, y := a.Run.Hops[i], b.Run.Hops[i]
		if x.TTL != y.TTL || !x.IPAddress.Equal(y.IPAddress) || x.IsDest != y.IsDest {
			return fmt.Sprintf("hop %d: %v/%v/%v vs %v/%v/%v", i, x.TTL, x.IPAddress, x.IsDest, y.TTL, y.IPAddress, y.IsDest)
		}
	}
	return ""
}

type c10Case struct {
	Sc *Scenario `json:"scenario"`
}

func checkC10(t *testing.T, c *c10Case, rec *Recorder) []Diff {
	sc := c.Sc
	_, base := countOps(t, sc)
	if base.Run == nil || base.Err != nil {
		rec.Case(scenarioKey(sc), false, nil, "baseline-failed")
		return nil
	}
	o := RunScenario(t, sc)
	var ds []Diff
	add := func(sig, f string, a ...any) { ds = append(ds, Diff{"C10", sig, fmt.Sprintf(f, a...)}) }
	labels := []string{"variant:" + sc.Variant}
	if o.Panic != "" || o.Deadlock != "" {
		add("crash", "fault %+v crashed or wedged the run: %s%s", sc.Faults, o.Panic, o.Deadlock)
		rec.Case(scenarioKey(sc), true, nil, labels...)
		return ds
	}
	w := o.Wire
	fired := len(w.Fired) + w.FiredOther
	onlyClose, anyFatalNonClose, anyDeadlineRead, anyZero := true, false, false, false
	nt := false
	for _, f := range sc.Faults {
		labels = append(labels, fmt.Sprintf("fault:%s.%s/%s", f.Kind, f.Op, f.Class))
	}
	nonCloseSentinel := false
	for _, f := range w.FiredList {
		if f.Op != "Close" {
			onlyClose = false
		} else {
			continue
		}
		switch f.Class {
		case "deadline":
			anyDeadlineRead = true
		case "zero":
			anyZero = true
		default:
			anyFatalNonClose = true
			nonCloseSentinel = true
		}
		if f.K >= 2 || f.Op == "SetPacketFilter" || f.Op == "New" {
			nt = true
		}
	}
	_ = nonCloseSentinel
	switch {
	case fired == 0:
		labels = append(labels, "fault-not-reached")
		if o.Err != nil || o.Run == nil {
			add("error-without-fault", "no fault fired but the run failed: %v", o.Err)
		} else if d := sameHops(o, base); d != "" {
			add("result-changed-without-fault", "no fault fired but result differs from the fault-free run: %s", d)
		}
	case onlyClose:
		// outcome unconstrained
	case anyFatalNonClose:
		// at least one fatal fault fired outside Close: no result, error wraps a fired sentinel
		if o.Run != nil || o.Err == nil {
			add("partial-success", "fatal fault fired (%d) but the run returned a result (err=%v, %d hops)", len(w.Fired), o.Err, hopCount(o))
		} else {
			found := false
			for _, s := range w.Fired {
				if errors.Is(o.Err, s) {
					found = true
				}
			}
			// a fatal fault on Close does not have to surface; require the chain to expose a non-Close sentinel.
			// When a zero-length read fired as well, whichever of the two the run noticed first is reported,
			// and the zero-length one carries no sentinel (the tool words that error itself).
			if !found && !anyZero {
				add("cause-lost", "returned error does not wrap the injected cause (errors.Is false for all %d fired sentinels): %v", len(w.Fired), o.Err)
			}
		}
	case anyZero && !anyDeadlineRead:
		if o.Run != nil || o.Err == nil {
			add("partial-success", "zero-length/short I/O fault fired but the run returned a result (err=%v)", o.Err)
		}
	default:
		// deadline class on Read means "no packet yet": either the same success or a clean failure
		if o.Err == nil {
			if o.Run == nil {
				add("nil-nil", "run returned neither result nor error")
			} else if d := sameHops(o, base); d != "" {
				add("different-success", "spurious read deadline changed a successful result: %s", d)
			}
		} else if o.Run != nil {
			add("result-with-error", "run returned both a result and an error")
		}
	}
	if o.Err != nil && o.Run != nil {
		add("result-with-error", "run returned both a result and an error: %v", o.Err)
	}
	for _, p := range w.HandleProblems() {
		add("handle", "%s (faults %+v)", p, sc.Faults)
	}
	if o.GorAfter > o.GorBefore {
		add("goroutine-leak", "%d goroutines before the call, %d after it returned (faults %+v)", o.GorBefore, o.GorAfter, sc.Faults)
	}
	// only growth is a leak (a finalizer of an earlier case may close a descriptor in between)
	if o.FdBefore >= 0 && o.FdAfter > o.FdBefore {
		add("fd-leak", "%d socket descriptors before, %d after (faults %+v); open now: %s", o.FdBefore, o.FdAfter, sc.Faults, o.FdList)
	}
	rec.Case(scenarioKey(sc), nt, map[string]any{"variant": sc.Variant, "faults": sc.Faults, "err": fmt.Sprint(o.Err)}, labels...)
	return ds
}

func hopCount(o *Outcome) int {
	if o.Run == nil {
		return 0
	}
	return len(o.Run.Hops)
}

func enumFaults(t *testing.T, first, last int, yield func(*c10Case) bool) {
	for _, v := range AllVariants {
		base := c10Base(v, first, last)
		counts, o := countOps(t, base)
		if o.Run == nil {
			continue
		}
		emit := func(f Fault) bool {
			sc := *base
			sc.Faults = []Fault{f}
			return yield(&c10Case{Sc: &sc})
		}
		for _, fk := range []string{"sinkfactory", "sourcefactory"} {
			for k := 1; k <= 1; k++ {
				if !emit(Fault{Kind: fk, Handle: -1, Op: "New", K: k, Class: "fatal"}) {
					return
				}
			}
		}
		for _, c := range counts {
			classes := []string{"fatal"}
			switch c.Op {
			case "Read":
				classes = []string{"fatal", "deadline", "zero"}
			case "WriteTo", "SetReadDeadline", "SetPacketFilter":
				// "fatal-timeout": the failure is a timeout of the operating system's (Timeout() is true, it matches
				// os.ErrDeadlineExceeded); outside Read nothing makes that "no packet yet"
				classes = []string{"fatal", "zero", "fatal-timeout"}
			}
			// k up to N+1: the (N+1)-th call is never reached (fault-not-reached path)
			for k := 1; k <= c.N+1; k++ {
				for _, cl := range classes {
					if !emit(Fault{Kind: c.Kind, Handle: c.Handle, Op: c.Op, K: k, Class: cl}) {
						return
					}
				}
				// a read may also fail when it ends (after waiting for a packet or for its deadline): the last
				// poll of a run ends after the run's own deadline has passed
				if c.Op == "Read" && k <= c.N {
					if !emit(Fault{Kind: c.Kind, Handle: c.Handle, Op: c.Op, K: k, Class: "fatal", Late: true}) {
						return
					}
				}
			}
		}
	}
}

func TestC10Single(t *testing.T) {
	ranges := [][2]int{{1, 3}}
	if tier() == "thorough" {
		ranges = [][2]int{{1, 3}, {1, 8}, {250, 255}, {2, 2}}
	}
	rec := NewRecorder("C10", "C10Single", fmt.Sprintf("fault enumeration: for every variant and TTL range in %v, one fault-free run counts the calls N of every operation of every handle, then EVERY single fault (sink/source factory, WriteTo, Read (failing at the beginning or at the end of the call), SetReadDeadline, SetPacketFilter incl. the second SACK filter, Close; k in 1..N+1; classes fatal / fatal with the looks of an OS timeout (outside Read) / spurious deadline / zero-length) is injected; oracle: (nil, error wrapping the injected sentinel) for fatal, same-success-or-clean-failure for a spurious deadline, never a partial result, every handle closed exactly once, nothing used after Close or after return, no goroutine or fd left; non-trivial = the fault fired at k >= 2 or in filter/factory code; exhaustive over that product", ranges))
	rec.Exhaustive = true
	RunCases(t, rec, func(yield func(*c10Case) bool) {
		for _, r := range ranges {
			stop := false
			enumFaults(t, r[0], r[1], func(c *c10Case) bool {
				if !yield(c) {
					stop = true
					return false
				}
				return true
			})
			if stop {
				return
			}
		}
	}, checkC10)
}

// TestC10Paths: "on every path, success or failure": the ways a run ends without any injected fault.
func TestC10Paths(t *testing.T) {
	rec := NewRecorder("C10", "C10Paths", "enumeration of fault-free end states: every variant x {success, silence, context cancelled before / during the run} and for SACK additionally {port closed (real ECONNREFUSED), handshake never shown, SYN-ACK without SACK-permitted, truncated timestamp option, acknowledgement without SACK blocks in three encodings} x 2 TTL ranges; oracle: result xor error, every handle the run opened closed exactly once, nothing used after Close or after return, no goroutine or descriptor left; non-trivial = the run ended in an error; exhaustive over that product")
	rec.Exhaustive = true
	type pathCase struct {
		Sc   *Scenario `json:"scenario"`
		Path string    `json:"path"`
	}
	RunCases(t, rec, func(yield func(*pathCase) bool) {
		for _, v := range AllVariants {
			for _, r := range [][2]int{{1, 3}, {2, 6}} {
				paths := []string{"success", "silence", "cancel-before", "cancel-during"}
				if v == "sack" {
					paths = append(paths, "closed", "no-synack", "no-permit", "no-options", "trunc-ts", "plain-ack", "plain-ack-empty", "plain-ack-ts", "plain-ack-half", "plain-ack-odd")
				}
				for _, path := range paths {
					sc := c10Base(v, r[0], r[1])
					switch path {
					case "silence":
						sc.Script = FlowScript{DestDist: 0, Default: HopSpec{Silent: true}}
					case "cancel-before":
						sc.CancelAtUs = -1
					case "cancel-during":
						sc.CancelAtUs = 3000
					case "closed":
						sc.Sack.NoListen = true
					case "no-synack":
						sc.Sack.NoSynAck = true
					case "no-permit":
						sc.Sack.Permit = false
					case "no-options":
						sc.Sack.Permit, sc.Sack.Bare = false, true
					case "trunc-ts":
						sc.Sack.TruncTS = true
					case "plain-ack", "plain-ack-empty", "plain-ack-ts", "plain-ack-half", "plain-ack-odd":
						sc.Script = FlowScript{DestDist: r[1], Default: HopSpec{DelayUs: 4000, DestKind: path}}
					}
					if !yield(&pathCase{Sc: sc, Path: path}) {
						return
					}
				}
			}
		}
	}, func(t *testing.T, c *pathCase, rec *Recorder) []Diff {
		o := RunScenario(t, c.Sc)
		var ds []Diff
		add := func(sig, f string, a ...any) { ds = append(ds, Diff{"C10", sig, fmt.Sprintf(f, a...)}) }
		rec.CaseEnumerated(o.Err != nil, map[string]any{"variant": c.Sc.Variant, "path": c.Path, "err": fmt.Sprint(o.Err)}, "variant:"+c.Sc.Variant, "path:"+c.Path)
		if o.Panic != "" || o.Deadlock != "" || o.Wire == nil {
			add("crash", "path %s crashed or wedged the run: %s%s", c.Path, o.Panic, o.Deadlock)
			return ds
		}
		if (o.Err == nil) == (o.Run == nil) {
			add("result-xor-error", "path %s: result %v, error %v", c.Path, o.Run != nil, o.Err)
		}
		for _, p := range o.Wire.HandleProblems() {
			add("handle", "path %s: %s", c.Path, p)
		}
		if o.GorAfter > o.GorBefore {
			add("goroutine-leak", "path %s: %d goroutines before the call, %d after it returned", c.Path, o.GorBefore, o.GorAfter)
		}
		if o.FdBefore >= 0 && o.FdAfter > o.FdBefore {
			add("fd-leak", "path %s: %d socket descriptors before, %d after; open now: %s", c.Path, o.FdBefore, o.FdAfter, o.FdList)
		}
		return ds
	})
}

// TestC10LateWrite: a probe write that blocks and then fails, while the destination's answer to the previous
// probe is handled by the receiver (which tells the sender to stop): the failure must still be reported.
func TestC10LateWrite(t *testing.T) {
	rec := NewRecorder("C10", "C10LateWrite", "enumeration: parallel-capable variants x the k-th probe write (k = 2..4) blocking for 6 ms and then failing, with the destination one hop before that probe and answering after 10 ms (its answer is handled while the failing write is in progress); oracle as for every fatal fault: no result, an error wrapping the injected cause, handles closed once, nothing left behind; non-trivial always; exhaustive over that product")
	rec.Exhaustive = true
	RunCases(t, rec, func(yield func(*c10Case) bool) {
		for _, v := range AllVariants {
			for k := 2; k <= 4; k++ {
				sc := c10Base(v, 1, 5)
				sc.Script = FlowScript{DestDist: k - 1, Default: HopSpec{DelayUs: 10000}}
				sc.WriteLagUs = 6000
				sc.Faults = []Fault{{Kind: "sink", Handle: 0, Op: "WriteTo", K: k, Class: "fatal", Late: true}}
				if !yield(&c10Case{Sc: sc}) {
					return
				}
			}
		}
	}, checkC10)
}

// TestC10Request: the same atomicity through the library entry point (RunTraceroute with one run), which adds
// its own layer between the caller and the protocol packages.
func TestC10Request(t *testing.T) {
	rec := NewRecorder("C10", "C10Request", "enumeration through RunTraceroute (one run, no e2e probes): protocol {udp, icmp, tcp syn, tcp sack, tcp prefer_sack (whose SACK attempt the fault hits: a failure there is no reason to fall back)} x ({single fatal fault at sink factory, source factory, first/second SetPacketFilter, WriteTo k=1..3, Read k=1..4, SetReadDeadline k=1..2} + fault-free with the public IP requested from a prompt / slow / failing service); oracle: no crash, no result, an error whose chain exposes the injected sentinel when a fault fired (same result as fault-free otherwise), every handle closed exactly once, no goroutine left; non-trivial = the fault fired; exhaustive over that product")
	rec.Exhaustive = true
	type reqCase struct {
		Rq *Request `json:"request"`
	}
	type fk struct {
		kind, op string
		k        int
	}
	var faults []fk
	faults = append(faults, fk{"sinkfactory", "New", 1}, fk{"sourcefactory", "New", 1}, fk{"source", "SetPacketFilter", 1}, fk{"source", "SetPacketFilter", 2})
	for k := 1; k <= 3; k++ {
		faults = append(faults, fk{"sink", "WriteTo", k})
	}
	for k := 1; k <= 4; k++ {
		faults = append(faults, fk{"source", "Read", k})
	}
	faults = append(faults, fk{"source", "SetReadDeadline", 1}, fk{"source", "SetReadDeadline", 2})
	RunCases(t, rec, func(yield func(*reqCase) bool) {
		for _, pm := range [][2]string{{"udp", ""}, {"icmp", ""}, {"tcp", "syn"}, {"tcp", "sack"}, {"tcp", "prefer_sack"}} {
			for _, f := range faults {
				rq := &Request{}
				rq.P = ReqParams{Hostname: "93.184.216.34", Port: 443, Protocol: pm[0], TCPMethod: pm[1], MinTTL: 1, MaxTTL: 3, DelayMs: 2, TimeoutMs: 60, Queries: 1}
				if pm[1] == "sack" || pm[1] == "prefer_sack" {
					rq.SackSrv = true
					rq.P.Hostname = "127.9.8.6"
					rq.Sack = SackCfg{Permit: true, TS: true, ClientNxt: 0x10203040, ServerISN: 0x0a0b0c0d, SynAckUs: 1000}
				}
				rq.Scripts = []FlowScript{{DestDist: 3, Default: HopSpec{DelayUs: 4000}}}
				h := 0
				if f.op == "New" {
					h = -1
				}
				rq.Faults = []Fault{{Kind: f.kind, Handle: h, Op: f.op, K: f.k, Class: "fatal"}}
				if !yield(&reqCase{Rq: rq}) {
					return
				}
			}
			// fault-free, with the source public IP requested from a prompt / slow / failing service: nothing the
			// request started may be left behind
			for _, fm := range []string{"", "slow", "error"} {
				rq := &Request{Fetcher: fm, ReadAfter: true}
				rq.P = ReqParams{Hostname: "93.184.216.34", Port: 443, Protocol: pm[0], TCPMethod: pm[1], MinTTL: 1, MaxTTL: 3, DelayMs: 2, TimeoutMs: 60, Queries: 1, PublicIP: true}
				if pm[1] == "sack" || pm[1] == "prefer_sack" {
					rq.SackSrv = true
					rq.P.Hostname = "127.9.8.6"
					rq.Sack = SackCfg{Permit: true, TS: true, ClientNxt: 0x10203040, ServerISN: 0x0a0b0c0d, SynAckUs: 1000}
				}
				rq.Scripts = []FlowScript{{DestDist: 3, Default: HopSpec{DelayUs: 4000}}}
				rq.Faults = []Fault{{Kind: "none", Handle: 0, Op: "none", K: 1, Class: "fatal"}}
				if !yield(&reqCase{Rq: rq}) {
					return
				}
			}
		}
	}, func(t *testing.T, c *reqCase, rec *Recorder) []Diff {
		o := RunRequest(t, c.Rq)
		var ds []Diff
		add := func(sig, f string, a ...any) { ds = append(ds, Diff{"C10", sig, fmt.Sprintf(f, a...)}) }
		f := c.Rq.Faults[0]
		if o.ChangedAfterReturn != "" {
			add("written-after-return", "fetcher %q: %s", c.Rq.Fetcher, o.ChangedAfterReturn)
		}
		fired := o.Wire != nil && len(o.Wire.Fired) > 0
		rec.CaseEnumerated(fired, map[string]any{"protocol": c.Rq.P.Protocol, "method": c.Rq.P.TCPMethod, "fault": f, "err": fmt.Sprint(o.Err)}, "protocol:"+c.Rq.P.Protocol+c.Rq.P.TCPMethod, fmt.Sprintf("fault:%s.%s", f.Kind, f.Op), fmt.Sprintf("fired:%v", fired))
		if o.Panic != "" || o.Deadlock != "" || o.Wire == nil {
			add("crash", "fault %+v crashed or wedged the request: %s%s", f, o.Panic, o.Deadlock)
			return ds
		}
		if fired {
			if o.Res != nil || o.Err == nil {
				add("partial-success", "fatal fault %+v fired but the request returned a result (err=%v)", f, o.Err)
			} else {
				found := false
				for _, s := range o.Wire.Fired {
					if errors.Is(o.Err, s) {
						found = true
					}
				}
				if !found {
					add("cause-lost", "fault %+v: returned error does not wrap the injected cause: %v", f, o.Err)
				}
			}
		} else if (o.Err == nil) == (o.Res == nil) {
			add("result-xor-error", "no fault fired: result %v, error %v", o.Res != nil, o.Err)
		}
		for _, p := range o.Wire.HandleProblems() {
			add("handle", "%s (fault %+v)", p, f)
		}
		if o.GorAfter > o.GorBefore {
			add("goroutine-leak", "%d goroutines before the call, %d after it returned (fault %+v)", o.GorBefore, o.GorAfter, f)
		}
		return ds
	})
}

func TestC10Multi(t *testing.T) {
	rec := NewRecorder("C10", "C10Multi", "rapid: generated scenarios (all variants, worlds with loss/duplicates) with 1..3 simultaneous faults at drawn call indices and classes; same oracle")
	RunProp(t, rec, func(rt *rapid.T) *c10Case {
		sc := GenScenario(rt, GenOpts{MaxSpan: 8, SmallTimes: true, Dups: true, OwnWindow: true})
		// keep replies well inside the windows so that a spurious deadline cannot move a reply across a deadline
		clampEarly(sc)
		n := rapid.IntRange(1, 3).Draw(rt, "n_faults")
		for i := 0; i < n; i++ {
			f := Fault{Handle: 0}
			f.Kind = oneOf(rt, fmt.Sprintf("f%d_kind", i), "source", "source", "sink", "sinkfactory", "sourcefactory")
			switch f.Kind {
			case "source":
				f.Op = oneOf(rt, fmt.Sprintf("f%d_op", i), "Read", "Read", "SetReadDeadline", "SetPacketFilter", "Close")
			case "sink":
				f.Op = oneOf(rt, fmt.Sprintf("f%d_op", i), "WriteTo", "WriteTo", "Close")
			default:
				f.Op, f.Handle = "New", -1
			}
			f.K = rapid.IntRange(1, 12).Draw(rt, fmt.Sprintf("f%d_k", i))
			if f.Op == "New" || f.Op == "Close" {
				f.K = 1
			}
			if f.Op == "SetPacketFilter" {
				f.K = rapid.IntRange(1, 2).Draw(rt, fmt.Sprintf("f%d_kf", i))
			}
			f.Class = "fatal"
			if f.Op == "Read" {
				f.Class = oneOf(rt, fmt.Sprintf("f%d_class", i), "fatal", "deadline", "zero")
			} else if f.Op != "Close" && f.Op != "New" {
				f.Class = oneOf(rt, fmt.Sprintf("f%d_class", i), "fatal", "fatal", "fatal-timeout")
			}
			sc.Faults = append(sc.Faults, f)
		}
		return &c10Case{Sc: sc}
	}, checkC10)
}

// clampEarly keeps every reply delay below a quarter of the timeout.
func clampEarly(sc *Scenario) {
	lim := int64(sc.TimeoutMs) * 1000 / 4
	fix := func(h HopSpec) HopSpec {
		if h.DelayUs > lim {
			h.DelayUs %= lim + 1
		}
		for i := range h.DupsUs {
			if h.DupsUs[i] > lim {
				h.DupsUs[i] %= lim + 1
			}
		}
		if h.BothDelayUs > lim {
			h.BothDelayUs %= lim + 1
		}
		return h
	}
	sc.Script.Default = fix(sc.Script.Default)
	for k, h := range sc.Script.Hops {
		sc.Script.Hops[k] = fix(h)
	}
}
