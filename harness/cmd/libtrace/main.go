// libtrace runs one request through the library entry point (traceroute.NewTraceroute().RunTraceroute) with the
// parameters the command line does not expose (send delay, first TTL, Paris mode) and prints the document the CLI
// would print. Used by c13_kernel.py inside the client namespace of a kernel topology.
package main

import (
	"context"
	"encoding/json"
	"flag"
	"fmt"
	"os"
	"time"

	"github.com/DataDog/datadog-traceroute/traceroute"
)

func main() {
	proto := flag.String("proto", "udp", "")
	method := flag.String("tcp-method", "syn", "")
	port := flag.Int("port", 33434, "")
	minTTL := flag.Int("min-ttl", 1, "")
	maxTTL := flag.Int("max-ttl", 30, "")
	delay := flag.Int("delay", 50, "send delay in ms")
	timeout := flag.Int("timeout", 1000, "ms")
	q := flag.Int("q", 3, "")
	e2e := flag.Int("Q", 0, "")
	v6 := flag.Bool("ipv6", false, "")
	paris := flag.Bool("paris", false, "")
	flag.Parse()
	if flag.NArg() != 1 {
		fmt.Fprintln(os.Stderr, "Error: usage: libtrace [flags] target")
		os.Exit(2)
	}
	params := traceroute.TracerouteParams{
		Hostname: flag.Arg(0), Port: *port, Protocol: *proto, MinTTL: *minTTL, MaxTTL: *maxTTL, Delay: *delay,
		Timeout: time.Duration(*timeout) * time.Millisecond, TCPMethod: traceroute.TCPMethod(*method), WantV6: *v6,
		TCPSynParisTracerouteMode: *paris, TracerouteQueries: *q, E2eQueries: *e2e,
	}
	res, err := traceroute.NewTraceroute().RunTraceroute(context.Background(), params)
	if err != nil {
		fmt.Fprintf(os.Stderr, "Error: failed to run traceroute: %v\n", err)
		os.Exit(1)
	}
	b, err := json.MarshalIndent(res, "", "  ")
	if err != nil {
		fmt.Fprintf(os.Stderr, "Error: JSON marshalling failed: %v\n", err)
		os.Exit(1)
	}
	fmt.Println(string(b))
}
