module verif/harness

go 1.25.6

require (
	github.com/DataDog/datadog-traceroute v0.0.0
	github.com/google/gopacket v1.1.19
	github.com/patrickmn/go-cache v2.1.0+incompatible
	golang.org/x/net v0.49.0
	golang.org/x/sys v0.40.0
	pgregory.net/rapid v1.3.0
)

require (
	github.com/cenkalti/backoff/v5 v5.0.3 // indirect
	github.com/golang/mock v1.6.0 // indirect
	github.com/google/uuid v1.6.0 // indirect
	golang.org/x/sync v0.19.0 // indirect
)

replace github.com/DataDog/datadog-traceroute => /repo
