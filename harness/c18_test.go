package harness

// C18: enrichment is per-address correct and failure-tolerant; caches store only successes;
// public-IP discovery asks providers in order and stops at the first valid address.

import (
	"context"
	"encoding/json"
	"errors"
	"fmt"
	"net"
	"net/http"
	"strings"
	"sync"
	"testing"
	"testing/synctest"
	"time"

	"github.com/DataDog/datadog-traceroute/cache"
	"github.com/DataDog/datadog-traceroute/publicip"
	"github.com/DataDog/datadog-traceroute/reversedns"
	gocache "github.com/patrickmn/go-cache"
	"pgregory.net/rapid"
)

// ---- (a) enrichment ----

type enrichCase struct {
	Runs [][]docHop           `json:"runs"`
	Dest []string             `json:"dest"` // destination address spec per run
	DNS  map[string]DNSScript `json:"dns"`  // by canonical address string
	// Flaky: for these addresses only the first lookup behaves as scripted; every later one fails 20 ms after it was
	// asked (a duplicate of the address in the same batch is looked up concurrently: one success, one late failure)
	Flaky map[string]bool `json:"flaky,omitempty"`
	// Twice: the document is enriched a second time a minute later; what was stored must be served without asking
	Twice bool `json:"twice,omitempty"`
	// Redact (with Twice): the first document is finished the way RunTraceroute finishes a request that skips
	// private hops (Normalize, RemovePrivateHops), and the second enrichment is that of a new request: a fresh
	// document with the same addresses. What the first request did to its own document must not show in the second.
	Redact bool `json:"redact,omitempty"`
}

var enrichPool = []string{"", "v4:10.0.0.1", "v4:8.8.8.8", "map:8.8.8.8", "v4:198.18.0.1", "v6:2001:db8::1", "v6:2001:db8::2", "map:10.0.0.1", "v4:203.0.113.9", "v6:fd00::9"}

func checkC18Enrich(t *testing.T, c *enrichCase, rec *Recorder) []Diff {
	var ds []Diff
	add := func(sig, f string, a ...any) { ds = append(ds, Diff{"C18", sig, fmt.Sprintf(f, a...)}) }
	doc := (&docCase{Runs: c.Runs}).build(nil)
	for i := range doc.Traceroute.Runs {
		if i < len(c.Dest) {
			doc.Traceroute.Runs[i].Destination.IPAddress = ipOf(c.Dest[i])
		}
	}
	before, _ := json.Marshal(doc)
	calls := map[string]int{}
	succ := map[string]int{} // lookups that returned an answer (possibly an empty list)
	callsAfterFirst := map[string]int{}
	succAfterFirst := map[string]int{}
	var mu sync.Mutex
	oldLookup, oldCache := reversedns.LookupAddrFn, cache.Cache
	defer func() { reversedns.LookupAddrFn, cache.Cache = oldLookup, oldCache }()
	reversedns.LookupAddrFn = func(ctx context.Context, addr string) ([]string, error) {
		mu.Lock()
		calls[addr]++
		nth := calls[addr]
		mu.Unlock()
		s := c.DNS[addr]
		if c.Flaky[addr] && nth >= 2 {
			select {
			case <-time.After(20 * time.Millisecond):
			case <-ctx.Done():
			}
			return nil, errors.New("scripted late failure for " + addr)
		}
		if s.DelayMs > 0 {
			select {
			case <-time.After(time.Duration(s.DelayMs) * time.Millisecond):
			case <-ctx.Done():
				return nil, ctx.Err()
			}
		}
		ok := func(names []string) ([]string, error) {
			mu.Lock()
			succ[addr]++
			mu.Unlock()
			return append([]string(nil), names...), nil
		}
		if s.Err && s.Recovers && nth >= 2 {
			return ok(s.Names) // the resolver has recovered
		}
		if s.Err && s.Timeout {
			return nil, &net.DNSError{Err: "i/o timeout", Name: addr, IsTimeout: true}
		}
		if s.Err && s.NotFound {
			return nil, &net.DNSError{Err: "no such host", Name: addr, IsNotFound: true}
		}
		if s.Err {
			return nil, errors.New("scripted failure for " + addr)
		}
		return ok(s.Names)
	}
	var deadlock string
	func() {
		defer func() {
			if r := recover(); r != nil {
				deadlock = fmt.Sprint(r)
			}
		}()
		synctest.Test(t, func(t *testing.T) {
			cache.Cache = gocache.New(5*time.Minute, 0)
			doc.EnrichWithReverseDns()
			if c.Twice {
				mu.Lock()
				for k, v := range calls {
					callsAfterFirst[k] = v
				}
				for k, v := range succ {
					succAfterFirst[k] = v
				}
				mu.Unlock()
				time.Sleep(time.Minute)
				if c.Redact {
					doc.Normalize()
					doc.RemovePrivateHops()
					doc = (&docCase{Runs: c.Runs}).build(nil)
					for i := range doc.Traceroute.Runs {
						if i < len(c.Dest) {
							doc.Traceroute.Runs[i].Destination.IPAddress = ipOf(c.Dest[i])
						}
					}
				}
				doc.EnrichWithReverseDns()
			}
		})
	}()
	if deadlock != "" {
		add("enrich-hang", "EnrichWithReverseDns panicked or never returned: %s", deadlock)
		return ds
	}
	same := func(a, b []string) bool { return strings.Join(a, "\x00") == strings.Join(b, "\x00") }
	want := func(ip net.IP) []string {
		if len(ip) == 0 {
			return nil
		}
		s := c.DNS[ip.String()]
		if s.Err && s.Recovers && c.Twice && s.DelayMs < 5000 {
			return s.Names // failed in the first enrichment, asked again and answered in the second
		}
		if s.Err || s.DelayMs >= 5000 {
			return nil
		}
		return s.Names
	}
	// a flaky address answered its first lookup only: an entry whose own (concurrent, duplicate) lookup was a later
	// one legitimately stays empty in the first enrichment; the second enrichment is served from what was stored
	flakyOK := func(ip net.IP, got []string) bool {
		if len(ip) == 0 || c.Twice {
			return false
		}
		if c.Flaky[ip.String()] && len(got) == 0 {
			return true
		}
		// a recovering address: a duplicate of it in the same batch is the second lookup and is already answered
		s := c.DNS[ip.String()]
		return s.Err && s.Recovers && same(got, s.Names)
	}
	if c.Twice {
		// a success that was stored is served until it expires (1 h): no further question for that address, same names
		for addr, s := range c.DNS {
			// a failure is never stored: the address is asked again
			if s.Err && callsAfterFirst[addr] > 0 && succAfterFirst[addr] == 0 && calls[addr] == callsAfterFirst[addr] {
				add("failure-stored", "address %s failed to resolve in the first enrichment and was not asked again a minute later (a failed lookup must not be cached)", addr)
			}
			stored := s.DelayMs < 5000 && succAfterFirst[addr] > 0
			if stored && calls[addr] != callsAfterFirst[addr] {
				add("stored-success-requeried", "address %s was resolved successfully in the first enrichment (%d lookups) and asked again %d times a minute later", addr, callsAfterFirst[addr], calls[addr]-callsAfterFirst[addr])
			}
		}
	}
	distinct := map[string]bool{}
	outcomes := map[string]bool{}
	dup := false
	for i := range doc.Traceroute.Runs {
		run := &doc.Traceroute.Runs[i]
		if !same(run.Destination.ReverseDns, want(run.Destination.IPAddress)) && !flakyOK(run.Destination.IPAddress, run.Destination.ReverseDns) {
			add("dest-names", "run %d destination %v has names %v, resolver returned %v for that address", i, run.Destination.IPAddress, run.Destination.ReverseDns, want(run.Destination.IPAddress))
		}
		for j, h := range run.Hops {
			if !same(h.ReverseDns, want(h.IPAddress)) && !flakyOK(h.IPAddress, h.ReverseDns) {
				add("hop-names", "run %d hop %d (%v) has names %v, resolver returned %v for that address", i, j, h.IPAddress, h.ReverseDns, want(h.IPAddress))
			}
			if len(h.IPAddress) > 0 {
				k := h.IPAddress.String()
				if distinct[k] {
					dup = true
				}
				distinct[k] = true
				s := c.DNS[k]
				outcomes[fmt.Sprintf("%v/%d", s.Err, len(s.Names))] = true
			}
			h.ReverseDns = nil
		}
		run.Destination.ReverseDns = nil
	}
	after, _ := json.Marshal(doc)
	if string(before) != string(after) {
		add("document-altered", "enrichment changed something other than the reverse_dns fields")
	}
	rec.Case(scenarioKey(c), len(distinct) >= 2 && len(outcomes) >= 2 && dup, c)
	return ds
}

func TestC18Enrich(t *testing.T) {
	rec := NewRecorder("C18", "C18Enrich", "rapid: hop/destination address multisets (duplicates, unanswered hops, 4-byte and IPv4-mapped 16-byte forms of one address, IPv6) x scripted resolver per address {names, empty list, error, resolver timeout error, slow (virtual delays => completion order), slower than the library's 5 s lookup deadline}; oracle: every reverse_dns list equals what the resolver returned for that same address, failures leave it empty and nothing else in the document changes; half of the cases enrich a second time a minute later (a quarter as a new request after the first document was finished with skip-private-hops): stored successes are served unchanged without asking, failures are asked again; non-trivial = >= 2 distinct addresses with different outcomes and a duplicate")
	RunProp(t, rec, func(rt *rapid.T) *enrichCase {
		c := &enrichCase{DNS: map[string]DNSScript{}}
		nr := rapid.IntRange(1, 3).Draw(rt, "n_runs")
		for i := 0; i < nr; i++ {
			nh := rapid.IntRange(1, 10).Draw(rt, fmt.Sprintf("r%d_n", i))
			var hops []docHop
			for j := 0; j < nh; j++ {
				hops = append(hops, docHop{Addr: oneOf(rt, fmt.Sprintf("r%d_h%d", i, j), enrichPool...), RTT: 1})
			}
			c.Runs = append(c.Runs, hops)
			c.Dest = append(c.Dest, oneOf(rt, fmt.Sprintf("r%d_dest", i), enrichPool[1:]...))
		}
		for _, spec := range enrichPool[1:] {
			k := ipOf(spec).String()
			if _, ok := c.DNS[k]; ok {
				continue
			}
			// 6000 ms is beyond the library's own 5 s lookup deadline: that lookup ends as a timeout
			s := DNSScript{DelayMs: oneOf(rt, "dns_"+k+"_delay", 0, 0, 5, 40, 300, 6000)}
			switch oneOf(rt, "dns_"+k+"_kind", "names", "names", "two", "empty", "error", "timeout-error", "notfound-error", "error-then-names") {
			case "names":
				s.Names = []string{"h-" + k + ".example."}
			case "two":
				s.Names = []string{"a-" + k + ".example.", "b-" + k + ".example."}
			case "empty":
				s.Names = []string{}
			case "timeout-error":
				s.Err, s.Timeout = true, true
			case "notfound-error":
				s.Err, s.NotFound = true, true
			case "error-then-names":
				s.Err, s.Recovers, s.NotFound = true, true, rapid.Bool().Draw(rt, "dns_"+k+"_nf")
				s.Names = []string{"late-" + k + ".example."}
			default:
				s.Err = true
			}
			c.DNS[k] = s
			if !s.Err && oneOf(rt, "dns_"+k+"_flaky", false, false, true) {
				if c.Flaky == nil {
					c.Flaky = map[string]bool{}
				}
				c.Flaky[k] = true
			}
		}
		c.Twice = rapid.Bool().Draw(rt, "twice")
		c.Redact = c.Twice && rapid.Bool().Draw(rt, "redact")
		return c
	}, checkC18Enrich)
}

// ---- (b) caches: model-based operation sequences ----

type cacheOp struct {
	Op      string `json:"op"` // get | rdns | pubip | advance | flush
	Key     string `json:"key,omitempty"`
	Fail    bool   `json:"fail,omitempty"`
	Val     int    `json:"val,omitempty"`
	TTLSec  int    `json:"ttl_sec,omitempty"` // -1 = no expiration
	Advance int    `json:"advance_sec,omitempty"`
}

type cacheCase struct {
	Ops []cacheOp `json:"ops"`
}

type modelEntry struct {
	val    string
	expiry time.Time // zero = never
}

func checkC18Cache(t *testing.T, c *cacheCase, rec *Recorder) []Diff {
	var ds []Diff
	add := func(sig, f string, a ...any) { ds = append(ds, Diff{"C18", sig, fmt.Sprintf(f, a...)}) }
	oldLookup, oldCache := reversedns.LookupAddrFn, cache.Cache
	defer func() { reversedns.LookupAddrFn, cache.Cache = oldLookup, oldCache }()
	hits, expiries, failedRefresh := 0, 0, 0
	var deadlock string
	func() {
		defer func() {
			if r := recover(); r != nil {
				deadlock = fmt.Sprint(r)
			}
		}()
		synctest.Test(t, func(t *testing.T) {
			cache.Cache = gocache.New(5*time.Minute, 0)
			model := map[string]modelEntry{}
			lookupCalls := 0
			var lookupResult []string
			var lookupErr error
			reversedns.LookupAddrFn = func(ctx context.Context, addr string) ([]string, error) {
				lookupCalls++
				return lookupResult, lookupErr
			}
			for i, op := range c.Ops {
				now := time.Now()
				// state of the model for a key; the exact expiry instant is don't-care
				state := func(key string) (modelEntry, string) {
					e, ok := model[key]
					if !ok {
						return e, "miss"
					}
					if e.expiry.IsZero() || now.Before(e.expiry) {
						return e, "hit"
					}
					if now.Equal(e.expiry) {
						return e, "edge"
					}
					return e, "miss"
				}
				switch op.Op {
				case "advance":
					time.Sleep(time.Duration(op.Advance) * time.Second)
				case "flush":
					cache.Cache.Flush()
					model = map[string]modelEntry{}
				case "get":
					e, st := state(op.Key)
					if _, had := model[op.Key]; had && st == "miss" {
						expiries++
					}
					invoked := 0
					val := fmt.Sprintf("v%d", op.Val)
					ttl := time.Duration(op.TTLSec) * time.Second
					if op.TTLSec < 0 {
						ttl = gocache.NoExpiration
					}
					got, err := cache.GetWithExpiration(op.Key, func() (string, error) {
						invoked++
						if op.Fail {
							return "", errors.New("scripted callback failure")
						}
						return val, nil
					}, ttl)
					switch st {
					case "hit":
						hits++
						if invoked != 0 {
							add("hit-requeried", "op %d: key %q is cached until %v but the callback ran again", i, op.Key, e.expiry)
						}
						if err != nil || got != e.val {
							add("hit-wrong-value", "op %d: key %q returned %q/%v, stored value is %q", i, op.Key, got, err, e.val)
						}
					case "miss":
						if invoked != 1 {
							add("miss-not-queried", "op %d: key %q is not cached but the callback ran %d times", i, op.Key, invoked)
						}
						if op.Fail {
							if err == nil {
								add("error-swallowed", "op %d: callback failed but no error was returned", i)
							}
							failedRefresh++
							delete(model, op.Key)
						} else {
							if err != nil || got != val {
								add("miss-wrong-value", "op %d: got %q/%v want %q", i, got, err, val)
							}
							me := modelEntry{val: val}
							if op.TTLSec >= 0 {
								me.expiry = now.Add(ttl)
							}
							model[op.Key] = me
						}
					default: // edge: resynchronise the model with whatever happened
						if invoked == 1 && !op.Fail {
							me := modelEntry{val: val}
							if op.TTLSec >= 0 {
								me.expiry = now.Add(ttl)
							}
							model[op.Key] = me
						} else if invoked == 1 {
							delete(model, op.Key)
						}
					}
				case "rdns":
					key := "reverse-dns-" + op.Key
					e, st := state(key)
					lookupCalls = 0
					lookupResult, lookupErr = []string{fmt.Sprintf("n%d.example.", op.Val)}, nil
					if op.Fail {
						lookupResult, lookupErr = nil, errors.New("scripted lookup failure")
					}
					got, err := reversedns.GetReverseDns(op.Key)
					switch st {
					case "hit":
						hits++
						if lookupCalls != 0 {
							add("rdns-hit-requeried", "op %d: reverse DNS of %s is cached but the resolver was asked again", i, op.Key)
						}
						if err != nil || strings.Join(got, ",") != e.val {
							add("rdns-hit-wrong-value", "op %d: reverse DNS of %s returned %v/%v, cached %q", i, op.Key, got, err, e.val)
						}
					case "miss":
						if lookupCalls != 1 {
							add("rdns-miss-not-queried", "op %d: resolver asked %d times for uncached %s", i, lookupCalls, op.Key)
						}
						if op.Fail {
							failedRefresh++
							if err == nil {
								add("rdns-error-swallowed", "op %d: lookup failed but no error returned", i)
							}
							delete(model, key)
						} else {
							model[key] = modelEntry{val: strings.Join(lookupResult, ","), expiry: now.Add(time.Hour)}
						}
					default:
						if lookupCalls == 1 && !op.Fail {
							model[key] = modelEntry{val: strings.Join(lookupResult, ","), expiry: now.Add(time.Hour)}
						} else if lookupCalls == 1 {
							delete(model, key)
						}
					}
				case "pubip":
					key := "source_public_ip"
					e, st := state(key)
					ip := fmt.Sprintf("203.0.113.%d", 1+op.Val%200)
					steps := []ProviderStep{{Kind: "resp", Status: 200, Body: ip}}
					if op.Fail {
						steps = []ProviderStep{{Kind: "resp", Status: 404, Body: "nope"}}
					}
					rt := newScriptedRT(nil, steps)
					f := publicip.NewPublicIPFetcherWithClient(&http.Client{Transport: rt})
					got, err := f.GetIP(context.Background())
					switch st {
					case "hit":
						hits++
						if len(rt.Calls) != 0 {
							add("pubip-hit-requeried", "op %d: public IP is cached but %d HTTP requests were made", i, len(rt.Calls))
						}
						if err != nil || got.String() != e.val {
							add("pubip-hit-wrong-value", "op %d: public IP %v/%v, cached %q", i, got, err, e.val)
						}
					case "miss":
						if len(rt.Calls) == 0 {
							add("pubip-miss-not-queried", "op %d: public IP not cached but no HTTP request was made", i)
						}
						if op.Fail {
							failedRefresh++
							if err == nil {
								add("pubip-error-swallowed", "op %d: all providers failed but no error returned (%v)", i, got)
							}
							delete(model, key)
						} else {
							if err != nil || got.String() != ip {
								add("pubip-wrong", "op %d: got %v/%v want %s", i, got, err, ip)
							}
							model[key] = modelEntry{val: ip, expiry: now.Add(2 * time.Hour)}
						}
					default:
						if len(rt.Calls) > 0 && !op.Fail {
							model[key] = modelEntry{val: ip, expiry: now.Add(2 * time.Hour)}
						} else if len(rt.Calls) > 0 {
							delete(model, key)
						}
					}
				}
			}
		})
	}()
	if deadlock != "" {
		add("cache-hang", "cache sequence panicked or wedged: %s", deadlock)
	}
	rec.Case(scenarioKey(c), hits >= 1 && expiries+failedRefresh >= 1 && failedRefresh >= 1, c)
	return ds
}

func TestC18Cache(t *testing.T) {
	rec := NewRecorder("C18", "C18Cache", "rapid, model-based: sequences of 1..40 operations get(key, outcome, ttl) / reverse-DNS lookup / public-IP lookup / advance virtual time (seconds to hours) / flush against a model map key -> (value, expiry); the cache is re-created without its real-time janitor per case; oracle: a live entry is returned without re-querying, an absent or expired one re-queries exactly once, failures are returned and never stored; the exact expiry instant is don't-care; non-trivial = the sequence has a hit, an expiry or failed refresh, and a failed refresh")
	RunProp(t, rec, func(rt *rapid.T) *cacheCase {
		c := &cacheCase{}
		n := rapid.IntRange(1, 40).Draw(rt, "n_ops")
		for i := 0; i < n; i++ {
			op := cacheOp{Op: oneOf(rt, fmt.Sprintf("op%d", i), "get", "get", "get", "rdns", "rdns", "pubip", "advance", "advance", "flush")}
			switch op.Op {
			case "get":
				op.Key = oneOf(rt, fmt.Sprintf("op%d_key", i), "a", "b", "c")
				op.TTLSec = oneOf(rt, fmt.Sprintf("op%d_ttl", i), -1, 1, 60, 3600, 7200)
			case "rdns":
				op.Key = oneOf(rt, fmt.Sprintf("op%d_addr", i), "198.18.0.1", "2001:db8::1")
			case "advance":
				op.Advance = oneOf(rt, fmt.Sprintf("op%d_adv", i), 1, 59, 60, 61, 3599, 3600, 3601, 7199, 7201, 100000)
			}
			op.Fail = oneOf(rt, fmt.Sprintf("op%d_fail", i), false, false, true)
			op.Val = rapid.IntRange(0, 999).Draw(rt, fmt.Sprintf("op%d_val", i))
			c.Ops = append(c.Ops, op)
		}
		return c
	}, checkC18Cache)
}

// ---- (c) provider scripts ----

type provCase struct {
	Providers map[string][]ProviderStep `json:"providers"`
	Default   []ProviderStep            `json:"default"`
}

// notAddressBodies: answers that are not an address by construction, whatever parser is asked. Besides plain
// text and out-of-range numbers: an address with something attached (a zone, a prefix length, a port, brackets),
// which the more lenient parsers of the standard library accept or strip.
var notAddressBodies = []string{"not an ip", "", "999.9.9.9", "<html>", "fe80::1%eth0", "2001:db8::1%1", "203.0.113.5/32", "203.0.113.5:80", "[2001:db8::1]", "2001:db8::1%0\n"}

func isNotAddressBody(b string) bool {
	for _, x := range notAddressBodies {
		if strings.TrimSpace(b) == strings.TrimSpace(x) {
			return true
		}
	}
	return false
}

func stepIsValid(s ProviderStep) bool {
	// (a body that trickles in byte by byte is as valid as one that arrives at once)
	if s.Kind != "resp" && s.Kind != "slow-body" {
		return false
	}
	code := s.Status
	if code == 0 {
		code = 200
	}
	if code >= 400 && code < 500 {
		return false
	}
	return !isNotAddressBody(s.Body) && net.ParseIP(strings.TrimSpace(s.Body)) != nil
}

func stepIsPermanent(s ProviderStep) bool {
	if s.Kind != "resp" {
		return false
	}
	code := s.Status
	if code == 0 {
		code = 200
	}
	if code >= 400 && code < 500 {
		return true
	}
	return isNotAddressBody(s.Body) || net.ParseIP(strings.TrimSpace(s.Body)) == nil
}

func checkC18Providers(t *testing.T, c *provCase, rec *Recorder) []Diff {
	var ds []Diff
	add := func(sig, f string, a ...any) { ds = append(ds, Diff{"C18", sig, fmt.Sprintf(f, a...)}) }
	oldCache := cache.Cache
	defer func() { cache.Cache = oldCache }()
	var rt *scriptedRT
	var got net.IP
	var err error
	var deadlock string
	func() {
		defer func() {
			if r := recover(); r != nil {
				deadlock = fmt.Sprint(r)
			}
		}()
		synctest.Test(t, func(t *testing.T) {
			cache.Cache = gocache.New(5*time.Minute, 0)
			rt = newScriptedRT(c.Providers, c.Default)
			got, err = publicip.NewPublicIPFetcherWithClient(&http.Client{Transport: rt}).GetIP(context.Background())
		})
	}()
	if deadlock != "" {
		add("providers-hang", "public IP discovery never returned: %s", deadlock)
		return ds
	}
	order := publicip.VerifIPCheckers()
	pos := map[string]int{}
	for i, u := range order {
		pos[u] = i
	}
	last := -1
	firstCall := map[string]time.Duration{}
	uncertain := false
	final := map[string]bool{}
	var firstValid string
	finishedSuccess := false
	for _, call := range rt.Calls {
		p, known := pos[call.URL]
		if !known {
			add("unknown-provider", "request to %s which is not in the provider list", call.URL)
			continue
		}
		if finishedSuccess && !uncertain {
			add("request-after-success", "request to %s after a valid address had already been obtained", call.URL)
		}
		if p < last {
			add("provider-order", "request to provider #%d (%s) after provider #%d had been contacted", p, call.URL, last)
		}
		if p > last {
			// every provider between must have been contacted at least once (>=1 and all before the next one's first)
			if p != last+1 {
				add("provider-skipped", "provider #%d contacted right after #%d", p, last)
			}
			last = p
		}
		if final[call.URL] && !uncertain {
			add("retry-after-final", "request #%d to %s although its previous answer was final (client error or invalid body)", call.N, call.URL)
		}
		steps := c.Providers[call.URL]
		if steps == nil {
			steps = c.Default
		}
		if len(steps) > 0 {
			idx := call.N
			if idx >= len(steps) {
				idx = len(steps) - 1
			}
			st := steps[idx]
			// a step only takes effect if it completes within the provider's 2 s budget, which starts at the
			// provider's first request; how much of it the (randomised) backoff has used shows in the request log.
			// Completions within 5 ms of the budget's end are not asserted either way.
			first, seen := firstCall[call.URL]
			if !seen {
				first = call.At
				firstCall[call.URL] = first
			}
			done := call.At + time.Duration(st.DelayMs)*time.Millisecond
			if st.Kind == "resp" && st.Split > 0 && st.Split < len(st.Body) {
				done += time.Duration(st.PieceMs) * time.Millisecond
			}
			if st.Kind == "slow-body" {
				done = call.At + time.Duration(len(st.Body))*time.Duration(st.DelayMs)*time.Millisecond
			}
			budgetEnd := first + 2*time.Second
			if done > budgetEnd-5*time.Millisecond && done < budgetEnd+5*time.Millisecond {
				uncertain = true
			}
			if done < budgetEnd-5*time.Millisecond && !uncertain {
				if stepIsValid(st) && firstValid == "" {
					firstValid = strings.TrimSpace(st.Body)
					finishedSuccess = true
				} else if stepIsPermanent(st) {
					final[call.URL] = true
				}
			}
		}
	}
	if uncertain {
		rec.Case(scenarioKey(c), false, nil, "budget-edge(not asserted)")
		return ds
	}
	if firstValid == "" && err != nil {
		// nothing valid was obtained: discovery may only give up after every provider has been asked
		asked := map[string]bool{}
		for _, call := range rt.Calls {
			asked[call.URL] = true
		}
		for i, u := range order {
			if !asked[u] {
				add("provider-never-asked", "discovery failed (%v) although provider #%d (%s) was never asked", err, i, u)
				break
			}
		}
	}
	if firstValid != "" {
		if err != nil || !got.Equal(net.ParseIP(firstValid)) {
			add("wrong-address", "returned %v/%v, the first valid provider answer was %s", got, err, firstValid)
		}
	} else if err == nil && len(rt.Calls) > 0 {
		// success without a valid step can only come from a slow step that just made it; tolerate only if such a step exists
		slowValid := false
		for _, steps := range c.Providers {
			for _, s := range steps {
				if stepIsValid(s) || s.Kind == "slow-body" {
					slowValid = true
				}
			}
		}
		for _, s := range c.Default {
			if stepIsValid(s) || s.Kind == "slow-body" {
				slowValid = true
			}
		}
		if !slowValid {
			add("address-invented", "returned %v although no provider gave a valid address", got)
		}
	}
	p1 := order[0]
	nt := final[p1] && firstValid != "" && last >= 1
	rec.Case(scenarioKey(c), nt, map[string]any{"case": c, "calls": len(rt.Calls), "result": fmt.Sprint(got, err)})
	return ds
}

func TestC18Providers(t *testing.T) {
	rec := NewRecorder("C18", "C18Providers", "rapid: per-provider response scripts (status classes 2xx/3xx/4xx/5xx, valid/invalid/whitespace-padded bodies incl. full-notation IPv6 answers, transport errors, stalls, slow answers, answers that arrive in two pieces or byte by byte) over a scripted RoundTripper on the virtual clock; oracle over the request log: providers are contacted in list order without skipping, no request after the first valid address, no further request to a provider after a client error or an invalid body, the returned address is the first valid one; retry counts are not asserted (randomised backoff); non-trivial = provider 1 fails finally and a later one succeeds")
	RunProp(t, rec, func(rt *rapid.T) *provCase {
		c := &provCase{Providers: map[string][]ProviderStep{}}
		if rapid.IntRange(0, 3).Draw(rt, "unbiased") == 0 {
			c.Providers, c.Default = genProviders(rt)
			return c
		}
		// biased towards the interesting shape: early providers fail finally or transiently, a later one answers
		for i, u := range publicip.VerifIPCheckers() {
			var steps []ProviderStep
			switch oneOf(rt, fmt.Sprintf("p%d_cat", i), "final", "final", "transient-then-final", "transient-then-valid", "valid", "stall", "transient") {
			case "final":
				steps = []ProviderStep{{Kind: "resp", Status: oneOf(rt, fmt.Sprintf("p%d_code", i), 400, 403, 404, 499, 200, 500), Body: oneOf(rt, fmt.Sprintf("p%d_body", i), notAddressBodies...)}}
			case "transient-then-final":
				steps = []ProviderStep{{Kind: "neterr"}, {Kind: "resp", Status: 404, Body: "203.0.113.1"}}
			case "transient-then-valid":
				steps = []ProviderStep{{Kind: "neterr"}, {Kind: "resp", Status: oneOf(rt, fmt.Sprintf("p%d_vcode", i), 200, 301, 500), Body: fmt.Sprintf(" 203.0.113.%d\n", 10+i)}}
			case "valid":
				// the longest answers a service can give: full-notation IPv6, with the padding some services add
				full6 := fmt.Sprintf("2001:0db8:85a3:0000:0000:8a2e:0370:73%02x", 0x30+i)
				body := oneOf(rt, fmt.Sprintf("p%d_vbody", i), fmt.Sprintf("203.0.113.%d", 10+i), fmt.Sprintf("203.0.113.%d", 10+i), full6, "\r\n"+full6+"\r\n", "  \t  "+full6+" \n", "\n\n\n\n\n\n"+full6, fmt.Sprintf("2001:db8::%x\n", 10+i), fmt.Sprintf("   255.255.255.%d   \r\n", 200+i))
				steps = []ProviderStep{{Kind: "resp", Status: 200, Body: body, DelayMs: oneOf(rt, fmt.Sprintf("p%d_vdelay", i), 0, 300, 1200)}}
				// the answer may arrive in two pieces (chunked, or spanning two segments); the first piece may itself
				// look like an address
				if oneOf(rt, fmt.Sprintf("p%d_pieces", i), false, false, true) {
					steps[0].Split = rapid.IntRange(1, len(body)-1).Draw(rt, fmt.Sprintf("p%d_split", i))
					steps[0].PieceMs = oneOf(rt, fmt.Sprintf("p%d_piece_ms", i), 0, 1, 40)
				}
			case "stall":
				steps = []ProviderStep{{Kind: oneOf(rt, fmt.Sprintf("p%d_stall", i), "hang-before", "hang-after-headers")}}
			default:
				steps = []ProviderStep{{Kind: "neterr"}}
			}
			c.Providers[u] = steps
		}
		c.Default = []ProviderStep{{Kind: "neterr"}}
		return c
	}, checkC18Providers)
}
