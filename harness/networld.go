package harness

import (
	"encoding/binary"
	"fmt"
	"net"
	"net/netip"
	"sort"
	"time"

	"github.com/DataDog/datadog-traceroute/packets"
	"golang.org/x/sys/unix"
)

// NetWorld implements World for every protocol variant.
type NetWorld struct {
	Scripts  []FlowScript // by order of flow appearance (cycled)
	Noise    []NoiseItem
	Muts     []MutSpec
	Flood    *FloodSpec
	Strict   bool // whether quoted-source perturbations are must-reject
	Sack     *SackServer
	flows    map[string]*flowSt
	Order    []string
	poisonN  int
	BadProbe int
	// Problems: probes that do not belong to the connection they were sent on
	Problems []string
}

type flowSt struct {
	idx     int
	key     string
	probes  map[int]*Probe
	maxSent int
	// SACK receiver state of the target for this connection
	rcvNxt  uint32
	blocks  [][2]uint32 // received out-of-order ranges, most recently touched first
	srvSeq  uint32
	hasTS   bool
	tsVal   uint32
	haveTCP bool
	// handshaken: the connection's sequence numbers come from a handshake the world produced itself
	handshaken bool
	// tsNegotiated: the world's own SYN-ACK carried a well-formed timestamp option (RFC 7323: every later segment
	// of the connection then carries one); tsMissing: already reported for this flow
	tsNegotiated, tsMissing bool
}

func NewNetWorld(scripts ...FlowScript) *NetWorld {
	return &NetWorld{Scripts: scripts, flows: map[string]*flowSt{}}
}

// FlowID is the identity of a flow in the world: the wire tuple plus the sending handle. The tuple alone
// is not enough: two runs that do not overlap in time may be handed the same ephemeral port by the kernel
// and would then be merged into one flow (with one script and one probe table) although they are unrelated.
func FlowID(p *Probe, sink int) string {
	return fmt.Sprintf("%s@%d", p.FlowKey(), sink)
}

func (n *NetWorld) flow(p *Probe, sink int) *flowSt {
	k := FlowID(p, sink)
	fs := n.flows[k]
	if fs == nil {
		// a SACK connection is registered at accept time, before the handle that will probe it is known
		if pend := n.flows[p.FlowKey()]; pend != nil && pend.haveTCP && len(pend.probes) == 0 {
			delete(n.flows, p.FlowKey())
			for i, o := range n.Order {
				if o == pend.key {
					n.Order[i] = k
				}
			}
			pend.key = k
			n.flows[k] = pend
			return pend
		}
		fs = &flowSt{idx: len(n.Order), key: k, probes: map[int]*Probe{}}
		n.flows[k] = fs
		n.Order = append(n.Order, k)
	}
	return fs
}

// FlowAt returns the state of the flow a handle's probe belongs to (nil if unknown).
func (n *NetWorld) FlowAt(p *Probe, sink int) *flowSt {
	if fs := n.flows[FlowID(p, sink)]; fs != nil {
		return fs
	}
	return n.flows[p.FlowKey()]
}

// FlowOf returns the flow index of a key (or -1).
func (n *NetWorld) FlowOf(key string) int {
	if fs := n.flows[key]; fs != nil {
		return fs.idx
	}
	return -1
}

func (n *NetWorld) script(idx int) *FlowScript {
	return &n.Scripts[idx%len(n.Scripts)]
}

func (n *NetWorld) OnRead(w *Wire, source int) []Sched {
	if n.Sack == nil {
		return nil
	}
	// The connection a SACK run dials is completed by the real kernel; connect() may return a moment before
	// the listener's accept queue shows it (the final ACK is handled in a softirq). Nothing in the bubble
	// is blocked meanwhile, so without a wait the virtual clock could jump over the whole handshake timeout
	// on a busy machine. The first read of a handle that filters for SYN-ACKs therefore waits (in real time,
	// bounded, once per handle) for the queue to become readable.
	wait := false
	if source >= 0 && source < len(w.Sources) && !n.Sack.waited[source] {
		sp := w.Sources[source].Spec
		if len(sp) > 0 && sp[len(sp)-1].FilterType == packets.FilterTypeSYNACK {
			if n.Sack.waited == nil {
				n.Sack.waited = map[int]bool{}
			}
			n.Sack.waited[source] = true
			wait = true
		}
	}
	return n.Sack.acceptPending(n, wait)
}

func (n *NetWorld) OnProbe(w *Wire, sink int, raw []byte, p *Probe, perr error, dst netip.AddrPort) []Sched {
	if perr != nil {
		n.BadProbe++
		return nil
	}
	fs := n.flow(p, sink)
	ttl := int(p.TTL)
	var out []Sched
	if n.Flood != nil && len(fs.probes) == 0 {
		out = append(out, n.Flood.packets(p.Raw, p.IP.Src, p.IP.V6)...)
	}
	if _, dup := fs.probes[ttl]; !dup {
		fs.probes[ttl] = p
	}
	if ttl > fs.maxSent {
		fs.maxSent = ttl
	}
	sc := n.script(fs.idx)
	h := sc.Hop(ttl)
	reached := sc.DestDist > 0 && ttl >= sc.DestDist
	if h.AckLost && reached && p.Kind == "tcp-ack" && !h.Silent {
		fs.sackReceive(p) // the receiver got the byte; its duplicate ACK never arrives
		h.Silent = true
	}
	if h.Both && !h.Silent {
		var data []byte
		var tag Tag
		if reached {
			ra := routerAddr(p.IP.V6, addrKindFor(sc.AddrKind, ttl), fs.idx, ttl)
			data = icmpError(ra, p.IP.Src, FormSpec{}, quoteOf(raw, FormSpec{}))
			tag = Tag{Class: "genuine", CreditTTL: ttl, Responder: ra.String(), Form: "min"}
		} else {
			hh := h
			hh.FromOther = ""
			data, tag = n.destReply(fs, p, hh)
		}
		if data != nil && tag.Class == "genuine" {
			tag.Flow, tag.CausedBy = fs.key, ttl
			out = append(out, Sched{Delay: us(h.BothDelayUs), Data: data, Tag: tag})
		}
	}
	if !h.Silent {
		var data []byte
		var tag Tag
		if reached {
			data, tag = n.destReply(fs, p, h)
		} else {
			ra := routerAddr(p.IP.V6, addrKindFor(sc.AddrKind, ttl), fs.idx, ttl)
			if x, ok := sc.Addrs[ttl]; ok {
				if a, err := netip.ParseAddr(x); err == nil && a.Is6() == p.IP.V6 {
					ra = a
				}
			}
			data = icmpError(ra, p.IP.Src, h.Form, quoteOf(raw, h.Form))
			tag = Tag{Class: "genuine", CreditTTL: ttl, Responder: ra.String(), Form: h.Form.String()}
			if h.Form.ICMPCode != 0 {
				tag.Class = "dontcare"
			}
		}
		if data != nil {
			tag.Flow = fs.key
			tag.CausedBy = ttl
			if h.LinkPad && len(data) < 46 {
				data = append(append([]byte(nil), data...), make([]byte, 46-len(data))...)
			}
			out = append(out, Sched{Delay: us(h.DelayUs), Data: data, Tag: tag})
			for _, d := range h.DupsUs {
				out = append(out, Sched{Delay: us(d), Data: data, Tag: tag})
			}
		}
	}
	if len(n.Muts) > 0 {
		var base []byte
		for _, s := range out {
			if s.Tag.Class == "genuine" || s.Tag.Class == "sack-unsupported" {
				base = s.Data
				break
			}
		}
		if base == nil {
			ra := routerAddr(p.IP.V6, "", fs.idx, ttl)
			base = icmpError(ra, p.IP.Src, FormSpec{}, quoteOf(raw, FormSpec{}))
		}
		for _, m := range n.Muts {
			if m.Anchor == ttl {
				out = append(out, Sched{Delay: us(m.DelayUs), Data: ApplyMut(base, m.Ops), Tag: Tag{Class: "raw", Flow: fs.key, CreditTTL: ttl, CausedBy: ttl}})
			}
		}
	}
	for _, ni := range n.Noise {
		if ni.Anchor == ttl {
			if s, ok := n.buildNoise(fs, p, ni); ok {
				s.Tag.Flow = fs.key
				s.Tag.CausedBy = ttl
				out = append(out, s)
			}
		}
	}
	return out
}

func addrKindFor(kind string, ttl int) string {
	if kind == "mix" {
		if ttl%2 == 0 {
			return "private"
		}
		return ""
	}
	return kind
}

// unreachFromTarget: the target (or a box answering with its address) rejects an echo request or a TCP segment with
// a destination unreachable. No property says whether that shows as a hop (the drivers ignore it); it is never
// the form that proves arrival for these protocols, so it must not mark the destination (C04).
func (n *NetWorld) unreachFromTarget(p *Probe, h HopSpec, kind string, from netip.Addr, tag Tag) ([]byte, Tag) {
	f := h.Form
	f.Kind = kind
	tag.Class, tag.IsDestForm, tag.Field = "dontcare", false, "unreach-for-"+p.Kind
	tag.Form = "unreach-from-target:" + kind
	tag.Responder = from.String()
	return icmpError(from, p.IP.Src, f, quoteOf(p.Raw, f)), tag
}

// destReply is the target's own answer to a probe that reached it.
func (n *NetWorld) destReply(fs *flowSt, p *Probe, h HopSpec) ([]byte, Tag) {
	target, local := p.IP.Dst, p.IP.Src
	from := target
	tag := Tag{Class: "genuine", CreditTTL: int(p.TTL), FromTarget: true}
	if h.FromOther != "" {
		from = netip.MustParseAddr(h.FromOther)
		tag.FromTarget = false
	}
	kind := h.DestKind
	switch p.Kind {
	case "icmp-echo":
		if kind == "" {
			kind = "echo-reply"
		}
		switch kind {
		case "echo-reply":
			tag.IsDestForm = true
			tag.Form = "echo-reply"
			tag.Responder = from.String()
			if !tag.FromTarget {
				// an echo reply from a foreign address is not a reply on the probe's flow
				tag.Class, tag.MustReject, tag.Field = "perturbed", true, "echo-reply-foreign-source"
			}
			return echoReply(p, from, p.ICMP.EchoID(), p.ICMP.EchoSeq()), tag
		case "unreach-host", "unreach-admin", "unreach-port":
			return n.unreachFromTarget(p, h, kind, from, tag)
		default: // the target itself answers with time exceeded: a hop, not a proof of arrival for ICMP
			tag.Form = "ttl-exceeded-from-target"
			tag.Responder = from.String()
			return icmpError(from, local, h.Form, quoteOf(p.Raw, h.Form)), tag
		}
	case "udp":
		f := h.Form
		if kind == "" || kind == "unreach-port" {
			f.Kind = "unreach-port"
		} else if kind == "ttl-exceeded" {
			f.Kind = ""
		} else {
			f.Kind = kind
		}
		// any matched ICMP error sent by the target proves arrival for UDP
		tag.IsDestForm = tag.FromTarget
		tag.Form = "udp-dest:" + f.String()
		tag.Responder = from.String()
		return icmpError(from, local, f, quoteOf(p.Raw, f)), tag
	case "tcp-syn":
		switch kind {
		case "synack", "rst", "rstack", "ttl-exceeded":
		case "unreach-host", "unreach-admin", "unreach-port":
			return n.unreachFromTarget(p, h, kind, from, tag)
		default:
			// a kind meant for another probe type (a request whose runs are SACK and whose e2e probes are SYN):
			// the port is listening, a SYN gets a SYN-ACK
			kind = "synack"
		}
		tag.Form = kind
		tag.Responder = from.String()
		if kind == "ttl-exceeded" {
			return icmpError(from, local, h.Form, quoteOf(p.Raw, h.Form)), tag
		}
		tag.IsDestForm = true
		if !tag.FromTarget {
			tag.Class, tag.MustReject, tag.Field = "perturbed", true, "tcp-reply-foreign-source"
		}
		var flags uint8
		var seq, ack uint32
		switch kind {
		case "synack":
			flags, seq, ack = TCPSyn|TCPAck, 0x1000+uint32(p.TTL), p.TCP.Seq+1
		case "rstack":
			flags, seq, ack = TCPRst|TCPAck, 0, p.TCP.Seq+1
		default: // rst
			flags, seq, ack = TCPRst, p.TCP.Seq+1, 0
		}
		var opts []byte
		if kind == "synack" {
			// a SYN-ACK only echoes what the SYN offered: the probe's SYN has no options, so MSS is all there is
			// (in particular no SACK-permitted, whatever the target would grant a real connection)
			opts = []byte{2, 4, 0x05, 0xb4}
			if po, err := ParseTCPOptions(p.TCP.Options); err == nil {
				for _, o := range po {
					if o.Kind == 4 {
						opts = append(opts, 1, 1, 4, 2)
					}
				}
			}
		}
		return tcpReply(from, p.DPort, local, p.SPort, seq, ack, flags, opts), tag
	case "tcp-ack":
		if kind == "" {
			kind = "sack"
		}
		tag.Form = kind
		tag.Responder = from.String()
		switch kind {
		case "unreach-host", "unreach-admin", "unreach-port":
			return n.unreachFromTarget(p, h, kind, from, tag)
		case "ttl-exceeded":
			// a time-exceeded sent by the target itself proves arrival for SACK
			tag.IsDestForm = tag.FromTarget
			return icmpError(from, local, h.Form, quoteOf(p.Raw, h.Form)), tag
		case "plain-ack", "plain-ack-empty", "plain-ack-ts", "plain-ack-half", "plain-ack-odd":
			// an acknowledgement without SACK blocks, in the encodings a receiver may use: no option at all,
			// a SACK option holding zero blocks (kind 5, length 2), only the timestamp option; and two that a
			// middlebox rewriting options leaves behind: a SACK option too short for one block (a lone left
			// edge naming the probe's own sequence number, or three bytes)
			tag.Class, tag.Field = "sack-unsupported", kind
			var opts []byte
			switch kind {
			case "plain-ack-empty":
				opts = []byte{1, 1, 5, 2}
			case "plain-ack-ts":
				opts = []byte{1, 1, 8, 10, 0x01, 0x02, 0x03, 0x05, 0x0a, 0x0b, 0x0c, 0x0d}
			case "plain-ack-half":
				opts = []byte{1, 1, 5, 6, 0, 0, 0, 0}
				binary.BigEndian.PutUint32(opts[4:], p.TCP.Seq)
			case "plain-ack-odd":
				opts = []byte{5, 5, byte(p.TCP.Seq >> 24), byte(p.TCP.Seq >> 16), byte(p.TCP.Seq >> 8), 1, 1, 1}
			}
			return tcpReply(from, p.DPort, local, p.SPort, fs.srvSeq+1, fs.rcvNxt, TCPAck, opts), tag
		}
		if fs.handshaken && fs.tsNegotiated && !fs.tsMissing {
			hasTS := false
			if opts, err := ParseTCPOptions(p.TCP.Options); err == nil {
				for _, o := range opts {
					if o.Kind == 8 && len(o.Data) == 8 {
						hasTS = true
					}
				}
			}
			if !hasTS {
				fs.tsMissing = true
				n.Problems = append(n.Problems, fmt.Sprintf("flow %s: SACK probe TTL %d carries no timestamp option although this connection's handshake negotiated timestamps", fs.key, p.TTL))
			}
		}
		if why := fs.outOfWindow(p); why != "" {
			// what a real receiver does with a segment that does not belong to the connection's window: a bare
			// acknowledgement, no SACK block. The probe is the problem, not the reply.
			n.Problems = append(n.Problems, fmt.Sprintf("flow %s: SACK probe TTL %d %s", fs.key, p.TTL, why))
			tag.Class, tag.Field = "out-of-window", why
			return tcpReply(from, p.DPort, local, p.SPort, fs.srvSeq+1, fs.rcvNxt, TCPAck, nil), tag
		}
		tag.IsDestForm = true
		if !tag.FromTarget {
			tag.Class, tag.MustReject, tag.Field = "perturbed", true, "sack-foreign-source"
		}
		opts, minRel := fs.sackReceive(p)
		tag.CreditTTL = int(minRel)
		return tcpReply(from, p.DPort, local, p.SPort, fs.srvSeq+1, fs.rcvNxt, TCPAck, opts), tag
	}
	return nil, tag
}

// outOfWindow says why a real TCP receiver would not queue the probe's byte (RFC 793/5961 acceptability as
// Linux applies it): sequence number outside the receive window, or an acknowledgement of data never sent.
func (fs *flowSt) outOfWindow(p *Probe) string {
	if !fs.handshaken {
		return ""
	}
	const window = 65535 << 7 // the SYN-ACK advertises 65535 with a shift of 7
	if rel := p.TCP.Seq - fs.rcvNxt; rel > window {
		return fmt.Sprintf("has sequence number %d, the connection's receive window starts at %d (handshake of this connection)", p.TCP.Seq, fs.rcvNxt)
	}
	if p.TCP.Flags&TCPAck != 0 {
		if d := int32(p.TCP.Ack - (fs.srvSeq + 1)); d > 0 || d < -window {
			return fmt.Sprintf("acknowledges %d, the target has sent nothing beyond %d on this connection", p.TCP.Ack, fs.srvSeq+1)
		}
	}
	return ""
}

// sackReceive models a SACK-capable TCP receiver getting an out-of-order segment; it returns the
// options of the duplicate ACK and the lowest relative left edge they report.
func (fs *flowSt) sackReceive(p *Probe) ([]byte, uint32) {
	if !fs.haveTCP {
		// connection not known through a handshake (should not happen): assume the probe's ack state
		fs.haveTCP = true
		fs.rcvNxt = p.TCP.Seq - uint32(p.TTL)
	}
	l, r := p.TCP.Seq, p.TCP.Seq+uint32(len(p.TCP.Payload))
	if len(p.TCP.Payload) == 0 {
		r = l + 1
	}
	// merge with existing blocks (sequence arithmetic relative to rcvNxt so wrap-around is handled)
	rel := func(x uint32) uint32 { return x - fs.rcvNxt }
	nl, nr := rel(l), rel(r)
	var rest [][2]uint32
	for _, b := range fs.blocks {
		bl, br := rel(b[0]), rel(b[1])
		if bl <= nr && nl <= br { // overlapping or adjacent
			if bl < nl {
				nl = bl
			}
			if br > nr {
				nr = br
			}
		} else {
			rest = append(rest, b)
		}
	}
	fs.blocks = append([][2]uint32{{fs.rcvNxt + nl, fs.rcvNxt + nr}}, rest...)
	maxBlocks := 4
	var opts []byte
	if fs.hasTS {
		maxBlocks = 3
		fs.tsVal++
		ts := make([]byte, 10)
		ts[0], ts[1] = 8, 10
		binary.BigEndian.PutUint32(ts[2:], fs.tsVal)
		if o, err := ParseTCPOptions(p.TCP.Options); err == nil {
			for _, x := range o {
				if x.Kind == 8 && len(x.Data) == 8 {
					copy(ts[6:10], x.Data[0:4])
				}
			}
		}
		opts = append(opts, 1, 1)
		opts = append(opts, ts...)
	}
	nb := len(fs.blocks)
	if nb > maxBlocks {
		nb = maxBlocks
	}
	opts = append(opts, 1, 1, 5, byte(2+8*nb))
	minRel := uint32(0xffffffff)
	for _, b := range fs.blocks[:nb] {
		var e [8]byte
		binary.BigEndian.PutUint32(e[0:], b[0])
		binary.BigEndian.PutUint32(e[4:], b[1])
		opts = append(opts, e[:]...)
		if rel(b[0]) < minRel {
			minRel = rel(b[0])
		}
	}
	return opts, minRel
}

// ---- SACK server: a real loopback listener whose handshake the wire fabricates ----

type SackCfg struct {
	Permit       bool          `json:"permit"`
	TS           bool          `json:"ts"`
	ClientNxt    uint32        `json:"client_nxt"` // value of the SYN-ACK's ack field (= localInitSeq of the driver)
	ServerISN    uint32        `json:"server_isn"`
	NoSynAck     bool          `json:"no_synack,omitempty"` // handshake never shown to the capture handle
	TruncTS      bool          `json:"trunc_ts,omitempty"`  // timestamps option with a short length
	Bare         bool          `json:"bare,omitempty"`      // the SYN-ACK has a 20-byte TCP header: no option at all, not even MSS
	SynAckUs     int64         `json:"synack_us,omitempty"`
	NoListen     bool          `json:"no_listen,omitempty"` // port closed
	DropSyn      bool          `json:"drop_syn,omitempty"`  // the target silently drops the SYN (full accept queue): connect times out; real time only
	ExtraSynAcks []SynAckNoise `json:"extra,omitempty"`
}

// SynAckNoise is a near-miss SYN-ACK sent before the genuine one.
type SynAckNoise struct {
	Kind string `json:"kind"` // wrong-sport | wrong-dport | wrong-src | wrong-dst | not-synack
}

type SackServer struct {
	Cfg      SackCfg
	ln       *net.TCPListener
	Addr     netip.AddrPort
	accepted []int
	Accepts  int
	Remotes  []netip.AddrPort
	fillers  []net.Conn
	waited   map[int]bool
}

// NewSackServer listens on addr (a 127/8 address) with an ephemeral or given port.
func NewSackServer(addr netip.Addr, port uint16, cfg SackCfg) (*SackServer, error) {
	s := &SackServer{Cfg: cfg}
	if cfg.DropSyn {
		fd, err := unix.Socket(unix.AF_INET, unix.SOCK_STREAM|unix.SOCK_NONBLOCK|unix.SOCK_CLOEXEC, 0)
		if err != nil {
			return nil, err
		}
		unix.SetsockoptInt(fd, unix.SOL_SOCKET, unix.SO_REUSEADDR, 1)
		if err := unix.Bind(fd, &unix.SockaddrInet4{Port: int(port), Addr: addr.As4()}); err != nil {
			unix.Close(fd)
			return nil, err
		}
		if err := unix.Listen(fd, 0); err != nil {
			unix.Close(fd)
			return nil, err
		}
		sa, err := unix.Getsockname(fd)
		if err != nil {
			unix.Close(fd)
			return nil, err
		}
		s.Addr = netip.AddrPortFrom(addr, uint16(sa.(*unix.SockaddrInet4).Port))
		s.accepted = append(s.accepted, fd)
		// fill the accept queue: once a connect times out, further SYNs are being dropped
		for i := 0; i < 6; i++ {
			c, err := net.DialTimeout("tcp4", s.Addr.String(), 60*time.Millisecond)
			if err != nil {
				break
			}
			s.fillers = append(s.fillers, c)
		}
		return s, nil
	}
	if cfg.NoListen {
		// find a free port and leave it closed
		ln, err := net.ListenTCP("tcp4", net.TCPAddrFromAddrPort(netip.AddrPortFrom(addr, port)))
		if err != nil {
			return nil, err
		}
		s.Addr = ln.Addr().(*net.TCPAddr).AddrPort()
		ln.Close()
		return s, nil
	}
	ln, err := net.ListenTCP("tcp4", net.TCPAddrFromAddrPort(netip.AddrPortFrom(addr, port)))
	if err != nil {
		return nil, err
	}
	s.ln = ln
	s.Addr = ln.Addr().(*net.TCPAddr).AddrPort()
	return s, nil
}

// acceptPending accepts every connection in the queue without blocking and fabricates its SYN-ACK.
func (s *SackServer) acceptPending(n *NetWorld, wait bool) []Sched {
	if s.ln == nil {
		return nil
	}
	rc, err := s.ln.SyscallConn()
	if err != nil {
		return nil
	}
	var out []Sched
	rc.Control(func(fd uintptr) {
		if wait {
			pfd := []unix.PollFd{{Fd: int32(fd), Events: unix.POLLIN}}
			for i := 0; i < 5; i++ {
				if _, err := unix.Poll(pfd, 40); err != unix.EINTR {
					break
				}
			}
		}
		for {
			nfd, sa, err := unix.Accept4(int(fd), unix.SOCK_NONBLOCK|unix.SOCK_CLOEXEC)
			if err != nil {
				return
			}
			s.accepted = append(s.accepted, nfd)
			s.Accepts++
			sa4, ok := sa.(*unix.SockaddrInet4)
			if !ok {
				continue
			}
			remote := netip.AddrPortFrom(netip.AddrFrom4(sa4.Addr), uint16(sa4.Port))
			s.Remotes = append(s.Remotes, remote)
			out = append(out, s.synAcks(n, remote)...)
		}
	})
	return out
}

func (s *SackServer) synAcks(n *NetWorld, remote netip.AddrPort) []Sched {
	c := s.Cfg
	key := fmt.Sprintf("tcp|%s|%d|%s|%d", remote.Addr(), remote.Port(), s.Addr.Addr(), s.Addr.Port())
	fs := n.flows[key]
	if fs == nil {
		fs = &flowSt{idx: len(n.Order), key: key, probes: map[int]*Probe{}}
		n.flows[key] = fs
		n.Order = append(n.Order, key)
	}
	// every connection has its own initial sequence numbers (the first one exactly the configured values):
	// a run that takes another connection's SYN-ACK for its own then probes outside its window
	conn := uint32(len(s.Remotes) - 1)
	clientNxt, serverISN := c.ClientNxt+conn*0x10000019, c.ServerISN+conn*0x02000033
	fs.haveTCP, fs.handshaken, fs.rcvNxt, fs.srvSeq, fs.hasTS, fs.tsVal = true, true, clientNxt, serverISN, c.TS, 0x01020304
	fs.tsNegotiated = c.TS && !c.TruncTS && !c.NoSynAck
	var out []Sched
	opts := []byte{2, 4, 0xff, 0xd7}
	if c.Permit {
		opts = append(opts, 4, 2)
	} else {
		opts = append(opts, 1, 1)
	}
	if c.TS {
		ts := []byte{8, 10, 0x01, 0x02, 0x03, 0x04, 0x0a, 0x0b, 0x0c, 0x0d}
		if c.TruncTS {
			ts = []byte{8, 6, 0x01, 0x02, 0x03, 0x04}
		}
		opts = append(opts, ts...)
	}
	opts = append(opts, 1, 3, 3, 7)
	if c.Bare {
		opts = nil
		fs.hasTS, fs.tsNegotiated = false, false
	}
	for i, x := range c.ExtraSynAcks {
		src, dst := s.Addr, remote
		flags := uint8(TCPSyn | TCPAck)
		switch x.Kind {
		case "wrong-sport":
			src = netip.AddrPortFrom(src.Addr(), src.Port()^1)
		case "wrong-dport":
			dst = netip.AddrPortFrom(dst.Addr(), dst.Port()^1)
		case "wrong-src":
			src = netip.AddrPortFrom(netip.AddrFrom4([4]byte{127, 9, 9, 9}), src.Port())
		case "wrong-dst":
			dst = netip.AddrPortFrom(netip.AddrFrom4([4]byte{127, 9, 9, 8}), dst.Port())
		case "not-synack":
			flags = TCPAck
		}
		// a near miss must not be taken for the handshake: it carries a poisoned ack value
		data := tcpReply(src.Addr(), src.Port(), dst.Addr(), dst.Port(), serverISN^0x55, clientNxt+0x01000000, flags, opts)
		out = append(out, Sched{Delay: us(c.SynAckUs) / 2, Data: data, Tag: Tag{Class: "perturbed", MustReject: true, Field: "synack-" + x.Kind, Flow: key, ID: i}})
	}
	if n.Flood != nil {
		out = append(out, n.Flood.packets(nil, remote.Addr(), false)...)
	}
	genuineSynAck := tcpReply(s.Addr.Addr(), s.Addr.Port(), remote.Addr(), remote.Port(), serverISN, clientNxt, TCPSyn|TCPAck, opts)
	for _, m := range n.Muts {
		if m.Anchor == 0 {
			out = append(out, Sched{Delay: us(m.DelayUs), Data: ApplyMut(genuineSynAck, m.Ops), Tag: Tag{Class: "raw", Flow: key}})
		}
	}
	if !c.NoSynAck {
		data := genuineSynAck
		out = append(out, Sched{Delay: us(c.SynAckUs), Data: data, Tag: Tag{Class: "handshake", Flow: key}})
	}
	return out
}

// Close resets every accepted connection and closes the listener.
func (s *SackServer) Close() {
	for _, c := range s.fillers {
		c.Close()
	}
	s.fillers = nil
	for _, fd := range s.accepted {
		unix.SetsockoptLinger(fd, unix.SOL_SOCKET, unix.SO_LINGER, &unix.Linger{Onoff: 1, Linger: 0})
		unix.Close(fd)
	}
	s.accepted = nil
	if s.ln != nil {
		// drain anything never accepted
		s.acceptDrain()
		s.ln.Close()
	}
}

func (s *SackServer) acceptDrain() {
	rc, err := s.ln.SyscallConn()
	if err != nil {
		return
	}
	rc.Control(func(fd uintptr) {
		for {
			nfd, _, err := unix.Accept4(int(fd), unix.SOCK_NONBLOCK|unix.SOCK_CLOEXEC)
			if err != nil {
				return
			}
			unix.SetsockoptLinger(nfd, unix.SOL_SOCKET, unix.SO_LINGER, &unix.Linger{Onoff: 1, Linger: 0})
			unix.Close(nfd)
		}
	})
}

// flowsSorted is a deterministic listing for reports.
func (n *NetWorld) flowsSorted() []string {
	out := append([]string(nil), n.Order...)
	sort.Strings(out)
	return out
}

// FloodSpec is a burst of irrelevant or malformed packets at a finite rate.
type FloodSpec struct {
	RatePerMs  int    `json:"rate_per_ms"`
	DurationMs int    `json:"duration_ms"`
	Kind       string `json:"kind"` // mix | icmp-foreign | garbage | short | tcp-foreign | udp
}

func (f *FloodSpec) packets(probe []byte, local netip.Addr, v6 bool) []Sched {
	n := f.RatePerMs * f.DurationMs
	if n > 60000 {
		n = 60000
	}
	kinds := []string{f.Kind}
	if f.Kind == "mix" || f.Kind == "" {
		kinds = []string{"icmp-foreign", "garbage", "short", "tcp-foreign", "udp"}
	}
	out := make([]Sched, 0, n)
	for i := 0; i < n; i++ {
		k := kinds[i%len(kinds)]
		var data []byte
		switch k {
		case "icmp-foreign":
			if probe != nil {
				q := append([]byte(nil), probe...)
				if v6 {
					q[39] ^= byte(1 + i%200)
				} else {
					q[19] ^= byte(1 + i%200)
				}
				data = icmpError(poisonAddr(v6, i), local, FormSpec{}, quoteOf(q, FormSpec{}))
			} else {
				data = []byte{0x45, 0, 0, 28, 0, 0, 0, 0, 64, 1, 0, 0, 9, 9, 9, 9, 127, 0, 0, 1, 11, 0, 0, 0, 0, 0, 0, 0}
			}
		case "garbage":
			data = make([]byte, 20+i%50)
			for j := range data {
				data[j] = byte(i*31 + j*7)
			}
			if i%2 == 0 {
				data[0] = 0x45
			}
		case "short":
			data = make([]byte, 1+i%9)
			data[0] = byte(0x40 + i%0x30)
		case "tcp-foreign":
			src := netip.AddrFrom4([4]byte{127, 200, byte(i >> 8), byte(i)})
			dst := local
			if !dst.Is4() {
				dst = netip.AddrFrom4([4]byte{127, 0, 0, 1})
			}
			data = tcpReply(src, uint16(1000+i%5000), dst, uint16(2000+i%7000), uint32(i), uint32(i*3), TCPSyn|TCPAck, []byte{2, 4, 5, 0xb4, 4, 2, 1, 1})
		default:
			ip := &IPPacket{Src: netip.AddrFrom4([4]byte{9, 9, byte(i >> 8), byte(i)}), Dst: netip.AddrFrom4([4]byte{192, 0, 2, 2}), TTL: 9, Proto: ProtoUDP, Payload: []byte{0, 53, 0, 53, 0, 8, 0, 0}}
			data = ip.Encode(EncodeOpts{})
		}
		d := time.Duration(i) * time.Millisecond / time.Duration(max(f.RatePerMs, 1))
		out = append(out, Sched{Delay: d, Data: data, Tag: Tag{Class: "flood", Field: k}})
	}
	return out
}
