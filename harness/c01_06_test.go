package harness

import (
	"encoding/json"
	"fmt"
	"github.com/DataDog/datadog-traceroute/result"
	"testing"

	"pgregory.net/rapid"
)

// runAndCompare executes the scenario and returns every diff of C01..C06 plus bookkeeping facts.
type runFacts struct {
	O           *Outcome
	Info        *RefInfo
	NonEmpty    int
	MustRejRead int
	Failed      bool
}

func scenarioKey(sc any) string {
	b, _ := json.Marshal(sc)
	return string(b)
}

func runAndCompare(t *testing.T, sc *Scenario, rec *Recorder) ([]Diff, *runFacts) {
	o := RunScenario(t, sc)
	f := &runFacts{O: o}
	if o.Panic != "" || o.Deadlock != "" {
		f.Failed = true
		rec.Label("other:crash-or-deadlock")
		return []Diff{{"C09", "crash", "panic/deadlock: " + o.Panic + o.Deadlock}}, f
	}
	if o.Err != nil || o.Run == nil {
		f.Failed = true
		rec.Label("other:run-error")
		ds := []Diff{{"C09", "run-error", fmt.Sprintf("run failed: %v", o.Err)}}
		if o.Wire != nil {
			// what was put on the wire is judged whatever the outcome of the run
			ds = append(ds, CheckEmission(sc, o)...)
			if o.Wire.Overrun {
				ds = append(ds, Diff{"C08", "run-never-ends", fmt.Sprintf("run stopped by the harness watchdog after %v of virtual time", o.Wire.MaxVirtual)})
			}
		}
		return ds, f
	}
	ds, info := CheckRun(sc, o)
	f.Info = info
	ds = append(ds, CheckEmission(sc, o)...)
	for _, h := range o.Run.Hops {
		if h != nil && len(h.IPAddress) > 0 {
			f.NonEmpty++
		}
	}
	for _, e := range o.Wire.Reads(sc.runIdx()) {
		if e.Tag.MustReject {
			f.MustRejRead++
		}
	}
	return ds, f
}

// hopsEqual compares two runs of the same scenario (with and without noise) at every TTL where both
// runs were given the same genuine input (their references agree); there the outputs must be identical.
func hopsEqual(a, b *Outcome, ra, rb []RefHop) string {
	for i := 0; i < len(a.Run.Hops) && i < len(b.Run.Hops) && i < len(ra) && i < len(rb); i++ {
		if ra[i].Present != rb[i].Present || ra[i].Addr != rb[i].Addr || ra[i].RTT != rb[i].RTT || ra[i].IsDest != rb[i].IsDest {
			continue // different genuine input at this TTL (reply in the last-poll gray zone): not comparable
		}
		x, y := a.Run.Hops[i], b.Run.Hops[i]
		// RTT is left to C05's reference check: at equal virtual instants the engine's own timers race, so the
		// instant a queued late reply is read (not which reply is used) may legitimately differ between two runs
		if x.TTL != y.TTL || !x.IPAddress.Equal(y.IPAddress) || x.IsDest != y.IsDest {
			return fmt.Sprintf("hop index %d: {ttl %d %v dest=%v rtt=%.6f} vs {ttl %d %v dest=%v rtt=%.6f}", i, x.TTL, x.IPAddress, x.IsDest, x.RTT, y.TTL, y.IPAddress, y.IsDest, y.RTT)
		}
	}
	return ""
}

func checks(def int) int {
	return envInt("VERIF_CHECKS", def)
}

// ---- C01 ----

func checkC01(t *testing.T, sc *Scenario, rec *Recorder) []Diff {
	ds, f := runAndCompare(t, sc, rec)
	if f.O != nil && f.O.Wire != nil {
		// replies to another run's probes are kept out by the source port alone for UDP (every run uses the same IP
		// IDs): a port another socket can be given while this run is live lets them in
		for _, pp := range f.O.Wire.PortProblems {
			ds = append(ds, Diff{"C01", "another-runs-replies-admitted", "nothing keeps another run from being handed this run's source port, whose replies would then create hops here: " + pp})
		}
	}
	if f.Failed {
		rec.Case(scenarioKey(sc), false, nil, "variant:"+sc.Variant)
		return ds
	}
	// differential: the same scenario without the noise gives the identical hop list
	if len(sc.Noise) > 0 {
		clean := *sc
		clean.Noise = nil
		o2 := RunScenario(t, &clean)
		if o2.Run != nil && o2.Err == nil {
			ref2, _ := Reference(&clean, o2, 0)
			if d := hopsEqual(f.O, o2, f.Info.Ref, ref2); d != "" {
				ds = append(ds, Diff{"C01", "noise-changed-result", "result with must-reject noise differs from the noise-free run: " + d})
			}
		}
	}
	labels := []string{"variant:" + sc.Variant}
	kinds := map[string]bool{}
	for _, e := range f.O.Wire.Reads(0) {
		if e.Tag.MustReject && !kinds[e.Tag.Field] {
			kinds[e.Tag.Field] = true
			labels = append(labels, "read-noise:"+e.Tag.Field)
		}
	}
	nt := f.NonEmpty >= 1 && f.MustRejRead >= 1
	rec.Case(scenarioKey(sc), nt, sampleOf(sc, f), labels...)
	return ds
}

func sampleOf(sc *Scenario, f *runFacts) any {
	hops := []string{}
	if f.O.Run != nil {
		for _, h := range f.O.Run.Hops {
			hops = append(hops, fmt.Sprintf("%d:%v dest=%v rtt=%.3f", h.TTL, h.IPAddress, h.IsDest, h.RTT))
		}
	}
	return map[string]any{"scenario": sc, "hops": hops, "must_reject_packets_read": f.MustRejRead}
}

func TestC01(t *testing.T) {
	rec := NewRecorder("C01", "C01", "rapid scenarios (variant x TTL range x id bases x timings x world) with 0..12 packets from the must-reject perturbation lattice; non-trivial = run reported >=1 non-empty hop AND >=1 must-reject packet was returned by Read during the run; distinct by scenario hash")
	RunProp(t, rec, func(rt *rapid.T) *Scenario {
		sc := GenScenario(rt, GenOpts{Noise: 12, Forms: true, Dups: true, MaxSpan: 40})
		// the capture filter is "purely a performance optimization" (no-op on other platforms): half of the
		// cases bypass it so that the matchers themselves see the wrong-tuple perturbations
		sc.FiltersOff = rapid.Bool().Draw(rt, "filters_off")
		return sc
	}, checkC01)
}

// TestC01Sweep: every lattice element x every variant x {first, middle, last} anchor, exhaustively.
func TestC01Sweep(t *testing.T) {
	rec := NewRecorder("C01", "C01Sweep", "deterministic sweep: every must-reject lattice element x variant x strict/relaxed x anchor TTL in {first, middle, last} x arg in a fixed set; exhaustive over that finite product")
	rec.Exhaustive = true
	RunCases(t, rec, func(yield func(*Scenario) bool) {
		for _, v := range AllVariants {
			base := Scenario{Variant: v, MinTTL: 2, MaxTTL: 7, TimeoutMs: 300, DelayMs: 10, PollMs: 10, Target: "93.184.216.34", Port: 443,
				EchoBase: 0xfffe, PktIDBase: 0xfffc, SeqMode: "fixed", SeqBase: 0xfffffffe,
				Script: FlowScript{DestDist: 6, Default: HopSpec{DelayUs: 3000}},
				Sack:   SackCfg{Permit: true, TS: true, ClientNxt: 0xfffffffd, ServerISN: 99, SynAckUs: 100}}
			if base.IsV6() {
				base.Target = "2001:db8:ffff::1"
			}
			if v == "sack" {
				base.Target, base.Port = "127.9.8.7", 0
			}
			kind := base.ProbeKind()
			for _, strict := range []bool{true, false} {
				if kind == "icmp-echo" && !strict {
					continue
				}
				for _, k := range quoteNoiseKinds[kind] {
					if strictOnlyNoise[k] && !strict {
						continue
					}
					for _, anchor := range []int{2, 4, 7} {
						for _, arg := range []int{1, 2, 3, 255} {
							sc := base
							sc.Strict = strict
							d := int64(1500)
							if k == "q-unsent" || k == "echo-reply-unsent" || k == "sack-edge-unsent" {
								if arg > 3 {
									continue
								}
								if sc.Serial() && anchor+arg <= sc.MaxTTL {
									continue
								}
							}
							sc.Noise = []NoiseItem{{Anchor: anchor, Kind: k, Arg: arg, DelayUs: d}}
							sc.FiltersOff = true // the matcher itself must reject it, with or without a capture filter
							if !yield(&sc) {
								return
							}
						}
					}
				}
			}
		}
	}, checkC01)
}

// ---- C02 ----

func checkC02(t *testing.T, sc *Scenario, rec *Recorder) []Diff {
	ds, f := runAndCompare(t, sc, rec)
	labels := []string{"variant:" + sc.Variant, fmt.Sprintf("strict:%v", sc.Strict)}
	nt := false
	forms := map[string]bool{}
	note := func(h HopSpec) {
		if !h.Form.Canonical() {
			nt = true
		}
		if len(h.DupsUs) > 0 || h.Silent {
			nt = true
		}
		forms[h.Form.String()] = true
	}
	note(sc.Script.Default)
	for _, h := range sc.Script.Hops {
		note(h)
	}
	for f := range forms {
		labels = append(labels, "form:"+f)
	}
	// a run that fails although nothing but genuine replies (in whatever form, however often) came in has lost
	// every one of them
	if f.Failed && f.O != nil && f.O.Err != nil && f.O.Panic == "" && f.O.Deadlock == "" && f.O.Wire != nil && !f.O.Wire.Overrun && len(sc.Faults) == 0 && len(sc.Muts) == 0 {
		genuine := 0
		for _, e := range f.O.Wire.Reads(0) {
			if e.Tag != nil && e.Tag.Class == "genuine" {
				genuine++
			}
		}
		if genuine > 0 {
			ds = append(ds, Diff{"C02", "all-replies-lost", fmt.Sprintf("the run read %d genuine replies and failed instead of reporting them: %v", genuine, f.O.Err)})
		}
	}
	rec.Case(scenarioKey(sc), nt && !f.Failed, sampleOf(sc, f), labels...)
	return ds
}

func TestC02(t *testing.T) {
	rec := NewRecorder("C02", "C02", "rapid scenarios over the device reply-form catalogue (quote length min/full/RFC4884/plus, outer IP options, rewritten quoted TTL/checksum/TOS, zeroed UDP checksum, NAT-rewritten quoted source in relaxed mode, unreachable codes for UDP, echo reply, SYN-ACK/RST/RST-ACK, stateful SACK receiver with ISNs at wrap points) with loss/duplication/reordering; serial engine restricted to replies inside their own window; non-trivial = at least one non-canonical form, duplicate or silent hop; distinct by scenario hash")
	RunProp(t, rec, func(rt *rapid.T) *Scenario {
		return GenScenario(rt, GenOpts{Forms: true, Dups: true, MaxSpan: 40, OwnWindow: true})
	}, checkC02)
}

// TestC02Product enumerates form x variant x TTL position x ISN completely.
func TestC02Product(t *testing.T) {
	rec := NewRecorder("C02", "C02Product", "full product: reply form x variant x strict/relaxed x TTL range in {1..3, 2..4, 128..130, 253..255} x SACK ISN set, plus runs in which every reply is delivered two or three times, plus SACK runs whose duplicate ACKs report two blocks with a hole between them for every position of the 2^32 wrap relative to the blocks; exhaustive over that finite product")
	rec.Exhaustive = true
	RunCases(t, rec, func(yield func(*Scenario) bool) {
		var forms []FormSpec
		for _, q := range []string{"min", "full", "ext", "ext0", "ext2", "plus"} {
			for _, opts := range []int{0, 1, 10} {
				for _, qttl := range []int{0, 1, 2} {
					for _, cs := range []string{"", "stale"} {
						forms = append(forms, FormSpec{Quote: q, OuterOpts: opts, QTTL: qttl, QCsum: cs})
					}
				}
			}
		}
		forms = append(forms, FormSpec{QTOS: 0xff}, FormSpec{QUDPCsumZero: true}, FormSpec{Kind: "unreach-port"}, FormSpec{Kind: "unreach-host"}, FormSpec{Kind: "unreach-admin"}, FormSpec{NAT: true}, FormSpec{NAT: true, Quote: "full"})
		isns := []uint32{0, 1, 0x7fffffff, 0x80000001, 0xffffff00, 0xffffffff}
		for _, v := range AllVariants {
			for _, strict := range []bool{true, false} {
				for _, rng := range [][2]int{{1, 3}, {2, 4}, {128, 130}, {253, 255}} {
					for fi, f := range forms {
						sc := &Scenario{Variant: v, Strict: strict, MinTTL: rng[0], MaxTTL: rng[1], TimeoutMs: 300, DelayMs: 10, PollMs: 10, Target: "93.184.216.34", Port: 443,
							EchoBase: 0xfffe, PktIDBase: 0xfffe,
							Script: FlowScript{DestDist: rng[1], Default: HopSpec{DelayUs: 5000, Form: f}},
							Sack:   SackCfg{Permit: true, TS: fi%2 == 0, ClientNxt: isns[fi%len(isns)], ServerISN: 5, SynAckUs: 100}}
						kind := sc.ProbeKind()
						if kind == "icmp-echo" && !strict {
							continue
						}
						if sc.IsV6() {
							sc.Target = "2001:db8:ffff::1"
							if f.OuterOpts != 0 || f.QCsum != "" || f.QTOS != 0 {
								continue
							}
						}
						if (f.QUDPCsumZero || f.Kind != "") && kind != "udp" {
							continue
						}
						if f.QUDPCsumZero && sc.IsV6() {
							continue
						}
						if f.NAT && (strict || kind == "icmp-echo") {
							continue
						}
						if v == "sack" {
							sc.Target, sc.Port = "127.9.8.7", 0
						}
						if !yield(sc) {
							return
						}
					}
				}
			}
		}
		// every reply delivered two or three times: more matched packets than probes in one run
		for _, v := range AllVariants {
			for _, strict := range []bool{true, false} {
				for _, dd := range []int{3, 4} {
					for _, copies := range [][]int64{{5100}, {5100, 5200}} {
						sc := &Scenario{Variant: v, Strict: strict, MinTTL: 1, MaxTTL: 4, TimeoutMs: 300, DelayMs: 10, PollMs: 10, Target: "93.184.216.34", Port: 443,
							EchoBase: 7, PktIDBase: 0x300, Script: FlowScript{DestDist: dd, Default: HopSpec{DelayUs: 5000, DupsUs: copies}},
							Sack: SackCfg{Permit: true, TS: true, ClientNxt: 0x1000, ServerISN: 5, SynAckUs: 100}}
						if sc.ProbeKind() == "icmp-echo" && !strict {
							continue
						}
						if sc.IsV6() {
							sc.Target = "2001:db8:ffff::1"
						}
						if v == "sack" {
							sc.Target, sc.Port = "127.9.8.7", 0
						}
						if !yield(sc) {
							return
						}
					}
				}
			}
		}
		// SACK around the 2^32 wrap: the target gets every probe; the byte of TTL a is received but its duplicate ACK
		// is lost, the probe of TTL a+1 is lost, so the ACK for TTL a+2 reports two blocks with a hole between
		// them; the initial sequence number puts the wrap at every position relative to the two blocks
		for k := 0; k <= 6; k++ {
			for a := 1; a <= 3; a++ {
				for _, strict := range []bool{true, false} {
					sc := &Scenario{Variant: "sack", Strict: strict, MinTTL: 1, MaxTTL: 6, TimeoutMs: 300, DelayMs: 10, PollMs: 10, Target: "127.9.8.7", Port: 0,
						Script: FlowScript{DestDist: 1, Default: HopSpec{DelayUs: 5000}, Hops: map[int]HopSpec{a: {DelayUs: 5000, AckLost: true}, a + 1: {Silent: true}}},
						Sack:   SackCfg{Permit: true, TS: k%2 == 0, ClientNxt: uint32(0x100000000 - int64(k)), ServerISN: 5, SynAckUs: 100}}
					if !yield(sc) {
						return
					}
				}
			}
		}
	}, checkC02)
}

// ---- C03 (protocol level; the engine-level part lives in c03_07_test.go) ----

func checkC03Protocol(t *testing.T, sc *Scenario, rec *Recorder) []Diff {
	ds, f := runAndCompare(t, sc, rec)
	nt := false
	if !f.Failed {
		dests := 0
		for _, e := range f.Info.Accepted {
			if e.Tag.IsDestForm && e.Tag.FromTarget {
				dests++
			}
		}
		gap := false
		for i, h := range f.O.Run.Hops {
			if len(h.IPAddress) == 0 && i < len(f.O.Run.Hops)-1 {
				gap = true
			}
		}
		nt = dests >= 2 || sc.MinTTL > 1 || sc.MaxTTL == 255 || gap
	}
	rec.Case(scenarioKey(sc), nt, sampleOf(sc, f), "variant:"+sc.Variant)
	return ds
}

func TestC03Protocol(t *testing.T) {
	rec := NewRecorder("C03", "C03Protocol", "protocol-level runs of all variants over generated worlds (any subset answered, destination answering several TTLs, duplicates, late replies); shape predicate on run.Hops; non-trivial = >=2 destination answers, or first TTL > 1, or last TTL = 255, or an unanswered TTL before the end")
	RunProp(t, rec, func(rt *rapid.T) *Scenario {
		return GenScenario(rt, GenOpts{Dups: true, MaxSpan: 0, OwnWindow: true})
	}, checkC03Protocol)
}

// TestC03SackHoles: where a SACK run ends when the target's acknowledgements report several separated blocks. The
// target is d hops away (d-1 routers answer before it); the byte of TTL a is received but its acknowledgement is
// lost and the next h probes are lost, so the first acknowledgement read names two blocks with a hole between
// them; the connection's first sequence number puts the 2^32 wrap at every position relative to the blocks.
func TestC03SackHoles(t *testing.T) {
	rec := NewRecorder("C03", "C03SackHoles", "SACK runs whose first acknowledgement reports two blocks with a hole between them: target distance 1..3 x acknowledged-but-unreported TTL a in d..d+2 x hole of 1 or 2 lost probes x 2^32 wrap at offsets 0..8 from the first probe x strict/relaxed; exhaustive over that product")
	rec.Exhaustive = true
	RunCases(t, rec, func(yield func(*Scenario) bool) {
		for d := 1; d <= 3; d++ {
			for a := d; a <= d+2; a++ {
				for hole := 1; hole <= 2; hole++ {
					for k := 0; k <= 8; k++ {
						for _, strict := range []bool{true, false} {
							hops := map[int]HopSpec{a: {DelayUs: 5000, AckLost: true}}
							for i := 1; i <= hole; i++ {
								hops[a+i] = HopSpec{Silent: true}
							}
							sc := &Scenario{Variant: "sack", Strict: strict, MinTTL: 1, MaxTTL: 8, TimeoutMs: 300, DelayMs: 10, PollMs: 10, Target: "127.9.8.7", Port: 0,
								Script: FlowScript{DestDist: d, Default: HopSpec{DelayUs: 5000}, Hops: hops},
								Sack:   SackCfg{Permit: true, TS: k%2 == 0, ClientNxt: uint32(0x100000000 - int64(k)), ServerISN: 5, SynAckUs: 100}}
							if !yield(sc) {
								return
							}
						}
					}
				}
			}
		}
	}, checkC03Protocol)
}

// ---- C04 ----

func checkC04(t *testing.T, sc *Scenario, rec *Recorder) []Diff {
	ds, f := runAndCompare(t, sc, rec)
	nt := false
	var labels []string
	if !f.Failed {
		for _, e := range f.O.Wire.Reads(sc.runIdx()) {
			if e.Tag.IsDestForm && !e.Tag.FromTarget {
				nt = true
				labels = append(labels, "wrong-place:"+e.Tag.Field)
			}
			if e.Tag.Class == "genuine" && e.Tag.FromTarget && (e.Tag.Form == "ttl-exceeded" || e.Tag.Form == "ttl-exceeded-from-target") {
				nt = true
				labels = append(labels, "ttl-exceeded-from-target")
			}
		}
		// e2e view: GetDestinationHop must exist iff the reference has a destination
		dh := f.O.Run.GetDestinationHop()
		if (dh != nil) != (f.Info.DestTTL != 0) {
			ds = append(ds, Diff{"C04", "dest-hop-lookup", fmt.Sprintf("GetDestinationHop()=%v but reference destination TTL=%d", dh, f.Info.DestTTL)})
		}
	}
	labels = append(labels, "variant:"+sc.Variant)
	rec.Case(scenarioKey(sc), nt, sampleOf(sc, f), labels...)
	return ds
}

func TestC04(t *testing.T) {
	rec := NewRecorder("C04", "C04", "rapid scenarios enriched with destination-form replies from the wrong place (echo reply with the run's id/seq from a foreign host, SYN-ACK/RST from another address or port, SACK from the wrong address, unreachable from routers) and time-exceeded sent by the target itself; non-trivial = such a packet was returned by Read during the run; distinct by scenario hash")
	RunProp(t, rec, func(rt *rapid.T) *Scenario {
		sc := GenScenario(rt, GenOpts{Noise: 6, Forms: true, WrongPlace: true, Dups: true, MaxSpan: 30, OwnWindow: true})
		sc.FiltersOff = rapid.Bool().Draw(rt, "filters_off")
		return sc
	}, checkC04)
}

// TestC04Reuse: the udp and tcp configurations are plain values whose Target field a caller may change between two
// runs; "the target" of the second run is the address it was given for that run, whatever the value was used
// for before. The last run is judged by the same reference as TestC04.
func TestC04Reuse(t *testing.T) {
	rec := NewRecorder("C04", "C04Reuse", "rapid scenarios of TestC04 for the udp and tcp (default and Paris) configuration values, run first against another address and/or port (or the same ones) and then, with the Target and port fields set, against the scenario's target; the last run is compared with the reference (destination marked exactly for the destination-form reply from the address of that run) and its probes must go to that address; non-trivial = the earlier run went to a different address or port and the last run read a destination-form reply")
	RunProp(t, rec, func(rt *rapid.T) *Scenario {
		sc := GenScenario(rt, GenOpts{Variants: []string{"udp4", "udp6", "tcp", "tcp-paris"}, Noise: 4, Forms: true, WrongPlace: true, Dups: true, MaxSpan: 12, SmallTimes: true, OwnWindow: true})
		sc.Reuse = 2
		pool := v4Targets
		if sc.IsV6() {
			pool = v6Targets
		}
		sc.ReuseFrom = oneOf(rt, "reuse_from", pool...)
		sc.ReusePort = oneOf(rt, "reuse_port", 0, 0, 53, 33434, 443)
		if sc.ReusePort == sc.Port {
			sc.ReusePort = 0
		}
		if sc.ReuseFrom == sc.Target && sc.ReusePort == 0 && !sc.Strict {
			// relaxed matching identifies a quoted probe by target, destination port and IP ID only, all of which the
			// two runs would then share: a late answer to the first run is then, by that mode's definition, an answer to
			// the second. The same address twice is therefore generated for strict matching only.
			for _, a := range pool {
				if a != sc.Target {
					sc.ReuseFrom = a
					break
				}
			}
		}
		return sc
	}, func(t *testing.T, sc *Scenario, rec *Recorder) []Diff {
		sc.earlier = nil
		ds, f := runAndCompare(t, sc, rec)
		nt := false
		if f.O != nil && f.O.Wire != nil {
			// the kernel may hand the second run the source port the first one has just released; to the same target
			// and port the two runs are then one flow on the wire, which the world (and nobody else) can tell apart
			sp := sinkProbes(f.O.Wire)
			if a, b := sp[0], sp[sc.runIdx()]; sc.runIdx() > 0 && len(a) > 0 && len(b) > 0 && a[0].SPort == b[0].SPort && a[0].IP.Dst == b[0].IP.Dst && a[0].DPort == b[0].DPort && a[0].Kind != "icmp-echo" {
				rec.Case(scenarioKey(sc), false, nil, "variant:"+sc.Variant, "other:kernel-reused-source-port")
				return nil
			}
		}
		if !f.Failed && (sc.ReuseFrom != sc.Target || sc.ReusePort != 0) {
			for _, e := range f.O.Wire.Reads(sc.runIdx()) {
				if e.Tag.IsDestForm {
					nt = true
				}
			}
		}
		if !f.Failed {
			dh := f.O.Run.GetDestinationHop()
			if (dh != nil) != (f.Info.DestTTL != 0) {
				ds = append(ds, Diff{"C04", "dest-hop-lookup", fmt.Sprintf("GetDestinationHop()=%v but reference destination TTL=%d", dh, f.Info.DestTTL)})
			}
		}
		rec.Case(scenarioKey(sc), nt, sampleOf(sc, f), "variant:"+sc.Variant, fmt.Sprintf("same_target:%v", sc.ReuseFrom == sc.Target), fmt.Sprintf("same_port:%v", sc.ReusePort == 0))
		return ds
	})
}

// ---- C05 ----

func checkC05(t *testing.T, sc *Scenario, rec *Recorder) []Diff {
	ds, f := runAndCompare(t, sc, rec)
	nt := false
	if f.O != nil && f.O.Wire != nil {
		// a UDP run is told apart from other runs to the same target by its source port alone (the IP IDs are the
		// same in every run): probes sent from a port the process does not hold can be answered into another run,
		// whose RTTs are then taken against its own send times
		for _, pp := range f.O.Wire.PortProblems {
			ds = append(ds, Diff{"C05", "rtt-against-another-runs-probe", "nothing keeps another run from being handed this run's source port, so replies to its probes would be timed against that run's send times: " + pp})
		}
	}
	if !f.Failed {
		delays := map[int64]bool{}
		dup := false
		overtake := false
		var prevArr int64 = -1
		for ttl := sc.MinTTL; ttl <= sc.MaxTTL; ttl++ {
			h := sc.Script.Hop(ttl)
			if h.Silent {
				continue
			}
			delays[h.DelayUs] = true
			if len(h.DupsUs) > 0 {
				dup = true
			}
			arr := int64(ttl-sc.MinTTL)*int64(sc.DelayMs)*1000 + h.DelayUs
			if arr < prevArr {
				overtake = true
			}
			prevArr = arr
		}
		nt = len(delays) >= 2 && f.NonEmpty >= 2 && (dup || overtake)
	}
	rec.Case(scenarioKey(sc), nt, sampleOf(sc, f), "variant:"+sc.Variant, fmt.Sprintf("delay_ms:%d", sc.DelayMs))
	return ds
}

func TestC05(t *testing.T) {
	rec := NewRecorder("C05", "C05", "rapid per-hop delay assignments (monotone, non-monotone, overtaking, duplicates with larger delay) at production-scale timeouts (up to 3 s / 250-500 ms send delay / 1-100 ms poll) on the virtual clock; oracle: |RTT - (arrival of first accepted reply - send instant of the same probe)| <= poll; non-trivial = >=2 hops with different delays and a duplicate or an overtaking pair; serial engine with send delay > poll restricted to replies inside their own window (the engine does not listen between windows)")
	RunProp(t, rec, func(rt *rapid.T) *Scenario {
		sc := GenScenario(rt, GenOpts{Dups: true, MaxSpan: 30, BigDelay: true})
		if sc.Serial() && sc.Delay() > sc.Poll() {
			clampOwnWindow(sc)
		}
		return sc
	}, checkC05)
}

func clampOwnWindow(sc *Scenario) {
	lim := int64(sc.TimeoutMs)*1000 - sc.Poll().Microseconds() - 1
	if lim < 0 {
		lim = 0
	}
	fix := func(h HopSpec) HopSpec {
		if h.DelayUs > lim {
			h.DelayUs %= lim + 1
		}
		// the second answer of a "both" hop is the first accepted one when the target's own answer is of a kind the
		// driver has no use for (an unreachable for a SYN): it has to be inside the window as well
		if h.BothDelayUs > lim {
			h.BothDelayUs %= lim + 1
		}
		return h
	}
	sc.Script.Default = fix(sc.Script.Default)
	for k, h := range sc.Script.Hops {
		sc.Script.Hops[k] = fix(h)
	}
}

// ---- C06 ----

func checkC06(t *testing.T, sc *Scenario, rec *Recorder) []Diff {
	ds, f := runAndCompare(t, sc, rec)
	nt := false
	if !f.Failed {
		n := f.Info.NSent
		early := f.Info.DestTTL != 0 && n < sc.MaxTTL-sc.MinTTL+1
		wrap := false
		switch sc.ProbeKind() {
		case "icmp-echo":
			wrap = uint16(sc.EchoBase+1) >= 0xfffe || uint16(sc.EchoBase+1) == 0
		case "tcp-syn":
			b := uint16(sc.PktIDBase)
			wrap = int(b)+sc.MaxTTL > 0xffff
		case "tcp-ack":
			wrap = sc.Sack.ClientNxt > 0xffffff00
		}
		nt = n >= 3 && (early || wrap)
	}
	rec.Case(scenarioKey(sc), nt, sampleOf(sc, f), "variant:"+sc.Variant)
	return ds
}

func TestC06(t *testing.T) {
	rec := NewRecorder("C06", "C06", "rapid configurations (variant x TTL range incl. 1..255 x identifier bases at wrap points x worlds making the destination visible early/late/never); every WriteTo is judged by the independent codec (lengths, header/transport checksums incl. pseudo-header, TTL, order, pacing, flow constancy, identifier uniqueness, endpoints); non-trivial = >=3 probes and either an identifier wrap point is crossed or the run stops early on a destination answer")
	RunProp(t, rec, func(rt *rapid.T) *Scenario {
		return GenScenario(rt, GenOpts{MaxSpan: 0, Dups: true, OwnWindow: true})
	}, checkC06)
}

// TestC06AllTTLs probes 1..255 for every variant at wrap-point identifier bases.
func TestC06AllTTLs(t *testing.T) {
	rec := NewRecorder("C06", "C06AllTTLs", "every variant x TTL range 1..255 (and every (first,last) with last-first<=2 in the thorough tier) x identifier bases {0, wrap-1, wrap}; exhaustive over that product")
	rec.Exhaustive = true
	RunCases(t, rec, func(yield func(*Scenario) bool) {
		for _, v := range AllVariants {
			for _, base := range []uint32{0, 0xff00, 0xfffe, 0xffff} {
				ranges := [][2]int{{1, 255}}
				if tier() == "thorough" {
					for f := 1; f <= 255; f++ {
						for l := f; l <= f+2 && l <= 255; l++ {
							ranges = append(ranges, [2]int{f, l})
						}
					}
				} else {
					ranges = append(ranges, [2]int{1, 1}, [2]int{255, 255}, [2]int{254, 255}, [2]int{2, 30})
				}
				for _, r := range ranges {
					sc := &Scenario{Variant: v, Strict: true, MinTTL: r[0], MaxTTL: r[1], TimeoutMs: 100, DelayMs: 1, PollMs: 10, Target: "93.184.216.34", Port: 33434,
						EchoBase: base, PktIDBase: base, Script: FlowScript{DestDist: 0, Default: HopSpec{DelayUs: 500}},
						Sack: SackCfg{Permit: true, TS: base%2 == 0, ClientNxt: 0xffffff80 + base&0xff, ServerISN: 1, SynAckUs: 10}}
					if sc.IsV6() {
						sc.Target = "2001:db8:ffff::1"
					}
					if v == "sack" {
						sc.Target, sc.Port = "127.9.8.7", 0
					}
					if !yield(sc) {
						return
					}
				}
			}
		}
	}, checkC06)
}

// TestC06UDP6ChecksumSearch: a UDP/IPv6 probe whose computed checksum is zero must carry 0xffff (zero is
// illegal over IPv6). The source port is chosen by the kernel, so the harness cannot construct the case;
// it searches instead: every run of 255 probes has 255 independent 16-bit checksums.
// TestC06Reuse: a configuration value that is run twice must emit, the second time, exactly what a fresh value
// would: probes from the source port the second run reports, one flow, and the same path.
func TestC06Reuse(t *testing.T) {
	rec := NewRecorder("C06", "C06Reuse", "enumeration: the udp and tcp (default and Paris) configuration values run twice in a row over the same scripted world, 4 TTL ranges; oracle: every probe of the second run leaves from the source port that run reports and belongs to one flow, TTLs in order, and the second run reports as many hops and the same destination flag as the first; non-trivial always; exhaustive over that product")
	rec.Exhaustive = true
	RunCases(t, rec, func(yield func(*Scenario) bool) {
		for _, v := range []string{"udp4", "udp6", "tcp", "tcp-paris"} {
			for _, r := range [][2]int{{1, 3}, {1, 6}, {2, 5}, {4, 4}} {
				sc := &Scenario{Variant: v, Strict: true, MinTTL: r[0], MaxTTL: r[1], TimeoutMs: 100, DelayMs: 1, PollMs: 100, Target: "93.184.216.34", Port: 443,
					PktIDBase: 0x200, Script: FlowScript{DestDist: r[1], Default: HopSpec{DelayUs: 4000}}, Reuse: 2}
				if sc.IsV6() {
					sc.Target = "2001:db8:ffff::1"
				}
				if !yield(sc) {
					return
				}
			}
		}
	}, func(t *testing.T, sc *Scenario, rec *Recorder) []Diff {
		sc.earlier = nil
		o := RunScenario(t, sc)
		rec.CaseEnumerated(true, map[string]any{"variant": sc.Variant, "range": []int{sc.MinTTL, sc.MaxTTL}}, "variant:"+sc.Variant)
		var ds []Diff
		add := func(sig, f string, a ...any) { ds = append(ds, Diff{"C06", sig, fmt.Sprintf(f, a...)}) }
		if o.Panic != "" || o.Deadlock != "" || o.Wire == nil {
			return []Diff{{"C09", "crash", o.Panic + o.Deadlock}}
		}
		if o.Err != nil || o.Run == nil || len(sc.earlier) != 1 || sc.earlier[0].Err != nil || sc.earlier[0].Run == nil {
			add("reuse-failed", "first run: %v, second run: %v", sc.earlier, o.Err)
			return ds
		}
		first, second := sc.earlier[0].Run, o.Run
		probes := sinkProbes(o.Wire)
		for h, run := range []*result.TracerouteRun{first, second} {
			ps := probes[h]
			if len(ps) == 0 {
				add("no-probes", "run %d put no probe on the wire", h+1)
				continue
			}
			for i, p := range ps {
				if p.SPort != run.Source.Port {
					add("stale-source-port", "run %d: probe #%d (TTL %d) leaves from port %d, the run reports source port %d", h+1, i, p.TTL, p.SPort, run.Source.Port)
					break
				}
				if p.FlowKey() != ps[0].FlowKey() {
					add("flow-changed", "run %d: probe #%d belongs to flow %s, the run's first probe to %s", h+1, i, p.FlowKey(), ps[0].FlowKey())
					break
				}
				if int(p.TTL) != sc.MinTTL+i {
					add("ttl-order", "run %d: probe #%d has TTL %d", h+1, i, p.TTL)
					break
				}
			}
		}
		if len(first.Hops) != len(second.Hops) {
			add("second-run-differs", "first run reports %d hops, the second %d", len(first.Hops), len(second.Hops))
		} else {
			for i := range first.Hops {
				a, b := first.Hops[i], second.Hops[i]
				if (len(a.IPAddress) > 0) != (len(b.IPAddress) > 0) || a.IsDest != b.IsDest {
					add("second-run-differs", "hop TTL %d: first run %v dest=%v, second run %v dest=%v", a.TTL, a.IPAddress, a.IsDest, b.IPAddress, b.IsDest)
					break
				}
			}
		}
		return ds
	})
}

func TestC06UDP6ChecksumSearch(t *testing.T) {
	n := 900
	if tier() == "thorough" {
		n = 4000
	}
	n = envInt("VERIF_C06_SEARCH", n)
	rec := NewRecorder("C06", "C06UDP6ChecksumSearch", fmt.Sprintf("search: %d UDP/IPv6 runs over TTL 1..255 with generated target addresses and ports, every router answering after the next probes have left (%d probes, each with an independent 16-bit checksum; the expected number whose computed checksum is zero is %.1f); every probe is verified by the independent codec and every hop against the reference (a probe whose identifier was disturbed by the zero-checksum handling is credited to the wrong TTL); non-trivial = the run emitted 255 well-formed probes", n, n*255, float64(n*255)/65536))
	RunCases(t, rec, func(yield func(*Scenario) bool) {
		for i := 0; i < n; i++ {
			sc := &Scenario{Variant: "udp6", Strict: true, MinTTL: 1, MaxTTL: 255, TimeoutMs: 150, DelayMs: 0, PollMs: 100,
				Target: fmt.Sprintf("2001:db8:%x:%x::%x", i&0xffff, (i*7919)&0xffff, 1+i%9), Port: 1 + (i*104729)%65535,
				Script: FlowScript{Default: HopSpec{DelayUs: 3000}}}
			if !yield(sc) {
				return
			}
		}
	}, func(t *testing.T, sc *Scenario, rec *Recorder) []Diff {
		o := RunScenario(t, sc)
		if o.Wire == nil || o.Err != nil {
			return []Diff{{"C06", "run-error", fmt.Sprintf("udp6 run failed: %v %s", o.Err, o.Panic)}}
		}
		ds := CheckEmission(sc, o)
		if o.Run != nil {
			more, _ := CheckRun(sc, o)
			ds = append(ds, more...)
		}
		rec.Case(scenarioKey(sc), len(o.Wire.Sends(0)) == 255 && len(ds) == 0, nil)
		return ds
	})
}
