package harness

// Request-level runner: traceroute.RunTraceroute (library) or the HTTP handler over the simulated wire,
// with a scripted public-IP fetcher and reverse-DNS resolver.

import (
	"os"
	"runtime"
	"context"
	"encoding/json"
	"errors"
	"fmt"
	"net"
	"net/http"
	"net/http/httptest"
	"net/netip"
	"net/url"
	"runtime/debug"
	"strconv"
	"strings"
	"sync"
	"testing"
	"testing/synctest"
	"time"

	"github.com/DataDog/datadog-traceroute/cache"
	"github.com/DataDog/datadog-traceroute/icmp"
	"github.com/DataDog/datadog-traceroute/packets"
	"github.com/DataDog/datadog-traceroute/publicip"
	"github.com/DataDog/datadog-traceroute/result"
	"github.com/DataDog/datadog-traceroute/reversedns"
	"github.com/DataDog/datadog-traceroute/server"
	"github.com/DataDog/datadog-traceroute/tcp"
	"github.com/DataDog/datadog-traceroute/traceroute"
	gocache "github.com/patrickmn/go-cache"
)

type ReqParams struct {
	Hostname    string `json:"hostname"`
	Port        int    `json:"port"`
	Protocol    string `json:"protocol"`
	MinTTL      int    `json:"min_ttl"`
	MaxTTL      int    `json:"max_ttl"`
	DelayMs     int    `json:"delay_ms"`
	TimeoutMs   int    `json:"timeout_ms"`
	TCPMethod   string `json:"tcp_method"`
	WantV6      bool   `json:"want_v6,omitempty"`
	Paris       bool   `json:"paris,omitempty"`
	NumStyle    string `json:"num_style,omitempty"` // HTTP only: "" | zeros | plus
	ReverseDns  bool   `json:"reverse_dns,omitempty"`
	PublicIP    bool   `json:"public_ip,omitempty"`
	Queries     int    `json:"queries"`
	E2e         int    `json:"e2e"`
	SkipPrivate bool   `json:"skip_private,omitempty"`
	BoolStyle   string `json:"bool_style,omitempty"` // HTTP only: "" true/false | digit | letter | LETTER | UPPER | Title
	// Omit (HTTP only): query keys left out of the request; the fields above then hold the documented defaults
	Omit []string `json:"omit,omitempty"`
	// Repeat (HTTP only): query keys that appear twice, with the same value
	Repeat []string `json:"repeat,omitempty"`
}

func (p ReqParams) ToLib() traceroute.TracerouteParams {
	return traceroute.TracerouteParams{
		Hostname: p.Hostname, Port: p.Port, Protocol: p.Protocol, MinTTL: p.MinTTL, MaxTTL: p.MaxTTL, Delay: p.DelayMs,
		Timeout: time.Duration(p.TimeoutMs) * time.Millisecond, TCPMethod: traceroute.TCPMethod(p.TCPMethod), WantV6: p.WantV6,
		TCPSynParisTracerouteMode: p.Paris, ReverseDns: p.ReverseDns, CollectSourcePublicIP: p.PublicIP,
		TracerouteQueries: p.Queries, E2eQueries: p.E2e, SkipPrivateHops: p.SkipPrivate,
	}
}

// ToQuery builds the HTTP API query string (MinTTL and Delay are not settable there).
func (p ReqParams) ToQuery() string {
	// NumStyle: the same decimal numbers spelt with leading zeros or an explicit plus sign
	num := func(v int) string {
		s := strconv.Itoa(v)
		switch p.NumStyle {
		case "zeros":
			if v < 0 {
				return "-00" + s[1:]
			}
			return "00" + s
		case "plus":
			if v >= 0 {
				return "+" + s
			}
		}
		return s
	}
	// BoolStyle: the other spellings of a boolean the handler's parser (strconv.ParseBool) takes
	boolean := func(v bool) string {
		i := 0
		if v {
			i = 1
		}
		switch p.BoolStyle {
		case "digit":
			return [2]string{"0", "1"}[i]
		case "letter":
			return [2]string{"f", "t"}[i]
		case "LETTER":
			return [2]string{"F", "T"}[i]
		case "UPPER":
			return [2]string{"FALSE", "TRUE"}[i]
		case "Title":
			return [2]string{"False", "True"}[i]
		}
		return strconv.FormatBool(v)
	}
	q := url.Values{}
	q.Set("target", p.Hostname)
	q.Set("port", num(p.Port))
	q.Set("protocol", p.Protocol)
	q.Set("max-ttl", num(p.MaxTTL))
	q.Set("timeout", num(p.TimeoutMs))
	q.Set("tcp-method", p.TCPMethod)
	q.Set("traceroute-queries", num(p.Queries))
	q.Set("e2e-queries", num(p.E2e))
	q.Set("ipv6", boolean(p.WantV6))
	q.Set("reverse-dns", boolean(p.ReverseDns))
	q.Set("source-public-ip", boolean(p.PublicIP))
	q.Set("skip-private-hops", boolean(p.SkipPrivate))
	for _, k := range p.Omit {
		q.Del(k)
	}
	// keys given twice with the same value (clients that merge default and per-request parameters do that)
	for _, k := range p.Repeat {
		if q.Has(k) {
			q.Add(k, q.Get(k))
		}
	}
	return q.Encode()
}

// DNSScript is the scripted resolver's behaviour for one address.
type DNSScript struct {
	Names    []string `json:"names,omitempty"`
	Err      bool     `json:"err,omitempty"`
	Timeout  bool     `json:"timeout,omitempty"`   // with Err: the failure is a *net.DNSError with IsTimeout
	NotFound bool     `json:"not_found,omitempty"` // with Err: the failure is a *net.DNSError with IsNotFound (NXDOMAIN)
	Recovers bool     `json:"recovers,omitempty"`  // with Err: only the first lookup fails, later ones answer Names
	DelayMs  int      `json:"delay_ms,omitempty"`
	Hang     bool     `json:"hang,omitempty"` // block until the lookup context ends
	PerAddr  bool     `json:"per_addr,omitempty"` // the answer also carries a name derived from the address asked for (ptrName)
}

// ptrName is the scripted resolver's address-specific name.
func ptrName(addr string) string { return "ptr." + strings.ReplaceAll(addr, ":", "-") + ".example." }

type Request struct {
	P              ReqParams    `json:"params"`
	HTTP           bool         `json:"http,omitempty"`
	RawQuery       string       `json:"raw_query,omitempty"` // overrides ToQuery when set
	Scripts        []FlowScript `json:"scripts"`
	Faults         []Fault      `json:"faults,omitempty"`
	SackSrv        bool         `json:"sack_srv,omitempty"`          // start a loopback listener at Hostname and use its port
	SackPortInHost bool         `json:"sack_port_in_host,omitempty"` // with SackSrv: the port goes into the target literal, Port names another port
	Sack           SackCfg      `json:"sack"`
	Fetcher        string       `json:"fetcher,omitempty"` // "" ok | error | slow | hang
	// Before: requests served by the same process (same cache, same world) before this one; their outcome is ignored
	// and their packets are kept off this request's ledger. Whatever they leave behind must not show in this one.
	Before []ReqParams `json:"before,omitempty"`
	// ReadAfter: the caller keeps reading the returned document (serialises it at once and again 5 s later);
	// ChangedAfterReturn reports a document that was still being written to after the call had returned
	ReadAfter bool `json:"read_after,omitempty"`
	// Concurrent: this many identical library requests are served at the same time by one Traceroute object
	Concurrent      int                       `json:"concurrent,omitempty"`
	// OwnObjects (with Concurrent): every one of those requests goes through a Traceroute object of its own, made
	// by the plain constructor at the moment of the request (an application that builds one per request)
	OwnObjects bool `json:"own_objects,omitempty"`
	// WriteFailsAfter (HTTP): the response writer accepts this many bytes and then fails (-1: fails at once)
	WriteFailsAfter int `json:"write_fails_after,omitempty"`
	// Hosts: names the scripted forward resolver knows (name -> addresses, IPv4 and IPv6 mixed, in table order); a
	// target that is one of these names is resolved through it, any other name does not exist
	Hosts map[string][]string `json:"hosts,omitempty"`
	DNS             map[string]DNSScript      `json:"dns,omitempty"`
	DNSDefault      DNSScript                 `json:"dns_default"`
	CancelAtUs      int64                     `json:"cancel_at_us,omitempty"`
	CancelDL        bool                      `json:"cancel_deadline,omitempty"` // see Scenario.CancelDL
	EchoBase        uint32                    `json:"echo_base,omitempty"`
	PktIDBase       uint32                    `json:"pktid_base,omitempty"`
	Noise           []NoiseItem               `json:"noise,omitempty"`
	Flood           *FloodSpec                `json:"flood,omitempty"`
	RealTime        bool                      `json:"real_time,omitempty"` // run on the real clock (no bubble)
	Providers       map[string][]ProviderStep `json:"providers,omitempty"` // when set, the real PublicIPFetcher runs over a scripted transport
	ProviderDefault []ProviderStep            `json:"provider_default,omitempty"`
}

type ReqOutcome struct {
	Res                 *result.Results
	AllRes              []*result.Results // with Concurrent: the result of every request
	Attempted           []byte            // with WriteFailsAfter: everything the handler tried to write
	Err                 error
	Panic               string
	Deadlock            string
	Wire                *Wire
	World               *NetWorld
	Elapsed             time.Duration
	HTTPStatus          int
	Body                []byte
	FetchCalls          int
	DNSCalls            map[string]int
	SackAccept          int
	GorBefore, GorAfter int
	Port                int // effective port (after SackSrv)
	RT                  *scriptedRT
	ChangedAfterReturn  string
}

type stubFetcher struct {
	mode  string
	mu    sync.Mutex
	calls int
}

var errFetcher = errors.New("scripted public IP failure")

func (f *stubFetcher) GetIP(ctx context.Context) (net.IP, error) {
	f.mu.Lock()
	f.calls++
	f.mu.Unlock()
	switch f.mode {
	case "error":
		return nil, errFetcher
	case "slow":
		time.Sleep(700 * time.Millisecond)
	case "hang":
		select {
		case <-ctx.Done():
			return nil, ctx.Err()
		case <-time.After(time.Hour):
			return nil, errFetcher
		}
	}
	return net.ParseIP("198.51.100.200"), nil
}

var reqMu sync.Mutex

// RunRequest executes one library or HTTP request on the fake clock.
func RunRequest(t *testing.T, rq *Request) *ReqOutcome {
	reqMu.Lock()
	defer reqMu.Unlock()
	out := &ReqOutcome{DNSCalls: map[string]int{}}
	scripts := rq.Scripts
	if len(scripts) == 0 {
		scripts = []FlowScript{{}}
	}
	world := NewNetWorld(scripts...)
	world.Noise = rq.Noise
	world.Flood = rq.Flood
	out.World = world
	p := rq.P
	if rq.Hosts != nil {
		// target names are resolved by a scripted forward resolver (and by nobody else)
		stub, err := newDNSStub(rq.Hosts)
		if err != nil {
			out.Panic = "harness-infra: dns stub: " + err.Error()
			return out
		}
		defer stub.close()
		oldRes := net.DefaultResolver
		net.DefaultResolver = stub.resolver()
		defer func() { net.DefaultResolver = oldRes }()
	}
	if rq.SackSrv {
		addr, err := netip.ParseAddr(p.Hostname)
		if err != nil {
			out.Panic = "harness-infra: sack server needs a literal: " + err.Error()
			return out
		}
		srv, err := NewSackServer(addr, 0, rq.Sack)
		if err != nil {
			out.Panic = "harness-infra: " + err.Error()
			return out
		}
		defer srv.Close()
		world.Sack = srv
		p.Port = int(srv.Addr.Port())
		out.Port = p.Port
		if rq.SackPortInHost {
			// the listener's port is written inside the target literal; the Port parameter names another (closed) port
			// and, by the rule "a port written in the target wins", must not be used by anything
			p.Hostname = netip.AddrPortFrom(addr, srv.Addr.Port()).String()
			p.Port = 9
		}
	}
	if out.Port == 0 {
		out.Port = p.Port
	}
	packets.VerifSetPacketIDBase(rq.PktIDBase)
	icmp.VerifSetEchoIDBase(rq.EchoBase)
	tcp.VerifSetSeqFn(nil)
	fetcher := &stubFetcher{mode: rq.Fetcher}
	oldLookup := reversedns.LookupAddrFn
	defer func() { reversedns.LookupAddrFn = oldLookup }()
	var dnsMu sync.Mutex
	reversedns.LookupAddrFn = func(ctx context.Context, addr string) ([]string, error) {
		dnsMu.Lock()
		out.DNSCalls[addr]++
		dnsMu.Unlock()
		s, ok := rq.DNS[addr]
		if !ok {
			s = rq.DNSDefault
		}
		if s.Hang {
			select {
			case <-ctx.Done():
				return nil, ctx.Err()
			case <-time.After(time.Hour):
				return nil, errors.New("scripted resolver gave up")
			}
		}
		if s.DelayMs > 0 {
			select {
			case <-time.After(time.Duration(s.DelayMs) * time.Millisecond):
			case <-ctx.Done():
				return nil, ctx.Err()
			}
		}
		if s.Err {
			return nil, errors.New("scripted resolver failure for " + addr)
		}
		names := append([]string(nil), s.Names...)
		if s.PerAddr {
			names = append(names, ptrName(addr))
		}
		return names, nil
	}
	oldCache := cache.Cache
	defer func() { cache.Cache = oldCache }()
	func() {
		defer func() {
			if r := recover(); r != nil {
				out.Deadlock = fmt.Sprint(r)
				if os.Getenv("VERIF_DEBUG_CRASH") == "2" {
					buf := make([]byte, 1<<20)
					n := runtime.Stack(buf, true)
					fmt.Fprintf(os.Stderr, "DEBUGSTACK %s\n%s\nENDSTACK\n", out.Deadlock, buf[:n])
				}
			}
		}()
		body := func(t *testing.T) {
			// no janitor: it compares real time with fake expiries
			cache.Cache = gocache.New(5*time.Minute, 0)
			for _, bp := range rq.Before {
				wb := NewWire(world)
				wb.MaxVirtual = requestWatchdog(bp)
				packets.SetVerifHooks(wb.Hooks())
				func() {
					defer func() { recover() }()
					traceroute.NewTracerouteWithFetcher(fetcher).RunTraceroute(context.Background(), bp.ToLib())
				}()
				wb.mu.Lock()
				wb.Returned = true
				wb.finished.Store(true)
				wb.mu.Unlock()
				packets.SetVerifHooks(nil)
				if !rq.RealTime {
					synctest.Wait()
				}
			}
			w := NewWire(world)
			w.Faults = rq.Faults
			w.MaxVirtual = requestWatchdog(p)
			out.Wire = w
			packets.SetVerifHooks(w.Hooks())
			defer packets.SetVerifHooks(nil)
			ctx, cancel := context.WithCancel(context.Background())
			defer cancel()
			if rq.CancelAtUs > 0 {
				ctx = endingAt(ctx, cancel, us(rq.CancelAtUs), rq.CancelDL)
			}
			var fx publicip.Fetcher = fetcher
			if rq.Providers != nil || rq.ProviderDefault != nil {
				rt := newScriptedRT(rq.Providers, rq.ProviderDefault)
				out.RT = rt
				fx = publicip.NewPublicIPFetcherWithClient(&http.Client{Transport: rt})
			}
			if rq.Fetcher == "plain-cached" {
				// the fetcher exactly as the plain constructor makes it (as NewTraceroute and the server do), with the
				// public IP already in the cache so that nothing is ever asked of the network
				cache.Cache.Set("source_public_ip", []byte(net.ParseIP("198.51.100.200").To4()), time.Hour)
				fx = publicip.NewPublicIPFetcher()
			}
			tr := traceroute.NewTracerouteWithFetcher(fx)
			out.GorBefore = bubbleGoroutines()
			begin := time.Now()
			func() {
				defer func() {
					if r := recover(); r != nil {
						out.Panic = fmt.Sprintf("%v\n%s", r, debug.Stack())
					}
				}()
				if rq.HTTP {
					srv := server.NewServerWithTraceroute(tr)
					q := rq.RawQuery
					if q == "" {
						q = p.ToQuery()
					}
					req := httptest.NewRequest(http.MethodGet, "/traceroute?"+q, nil).WithContext(ctx)
					rr := httptest.NewRecorder()
					var hw http.ResponseWriter = rr
					if rq.WriteFailsAfter != 0 {
						// the client goes away while the answer is being written: writes succeed up to that many bytes
						fw := &failingWriter{ResponseWriter: rr, limit: max(rq.WriteFailsAfter, 0)}
						hw = fw
						defer func() { out.Attempted = fw.seen }()
					}
					srv.TracerouteHandler(hw, req)
					out.HTTPStatus = rr.Code
					out.Body = rr.Body.Bytes()
					if rr.Code != http.StatusOK {
						out.Err = fmt.Errorf("HTTP %d: %s", rr.Code, rr.Body.String())
					}
				} else if rq.Concurrent > 1 {
					// several requests served by one process at the same time (one Traceroute object, one cache)
					var wg sync.WaitGroup
					ress := make([]*result.Results, rq.Concurrent)
					errs := make([]error, rq.Concurrent)
					for i := 0; i < rq.Concurrent; i++ {
						wg.Add(1)
						go func(i int) {
							defer wg.Done()
							mine := tr
							if rq.OwnObjects {
								mine = traceroute.NewTraceroute()
							}
							ress[i], errs[i] = mine.RunTraceroute(ctx, p.ToLib())
							if ress[i] != nil {
								// the caller reads what it was handed
								json.Marshal(ress[i])
							}
						}(i)
					}
					wg.Wait()
					out.Res, out.Err = ress[0], errs[0]
					out.AllRes = ress
					for i := range errs {
						if errs[i] != nil {
							out.Res, out.Err = nil, errs[i]
						}
					}
				} else {
					out.Res, out.Err = tr.RunTraceroute(ctx, p.ToLib())
				}
			}()
			out.Elapsed = time.Since(begin)
			w.mu.Lock()
			w.Returned = true
			w.finished.Store(true)
			w.mu.Unlock()
			if rq.ReadAfter && out.Res != nil && !rq.RealTime {
				b1, _ := json.Marshal(out.Res)
				time.Sleep(5 * time.Second)
				b2, _ := json.Marshal(out.Res)
				if string(b1) != string(b2) {
					out.ChangedAfterReturn = fmt.Sprintf("the document read right after the call returned: %s; the same document 5 s later: %s", b1, b2)
				}
			}
			cancel()
			if !rq.RealTime {
				synctest.Wait()
			}
			out.GorAfter = bubbleGoroutines()
			drainLeftBehind(out.GorBefore)
		}
		if rq.RealTime {
			body(t)
		} else {
			synctest.Test(t, body)
		}
	}()
	out.FetchCalls = fetcher.calls
	if world.Sack != nil {
		out.SackAccept = world.Sack.Accepts
	}
	return out
}

// sinkProbes groups the well-formed probes by sink handle.
func sinkProbes(w *Wire) map[int][]*Probe {
	m := map[int][]*Probe{}
	for _, e := range w.Ledger {
		if e.Kind == "sink" && e.Op == "WriteTo" && e.Probe != nil && e.Err == "" {
			m[e.Handle] = append(m[e.Handle], e.Probe)
		}
	}
	return m
}

// requestWatchdog is a generous multiple of the termination bound of a request (C08), so that a request
// that would never end is stopped (and reported) after a bounded amount of virtual time.
func requestWatchdog(p ReqParams) time.Duration {
	n := p.MaxTTL - p.MinTTL + 1
	if n < 1 || n > 255 {
		n = 255
	}
	timeout := time.Duration(p.TimeoutMs) * time.Millisecond
	delay := time.Duration(p.DelayMs) * time.Millisecond
	if delay < 50*time.Millisecond {
		delay = 50 * time.Millisecond // the HTTP API uses the default delay
	}
	per := timeout + 100*time.Millisecond + delay
	e2e := time.Duration(p.E2e) * time.Second
	return 3*(time.Duration(n)*per+e2e) + 40*time.Second
}

// handshakesDelivered counts the SACK attempts on a wire (handles that installed the SYN-ACK filter) and how many
// of them were handed their connection's SYN-ACK by the capture handle. The connection itself is made by the
// real kernel; if the harness could not show the SYN-ACK to an attempt (the accept queue lagging behind connect
// on a busy machine), what that attempt then does is not evidence about the code under test.
func handshakesDelivered(w *Wire) (attempts, delivered int) {
	for i, src := range w.Sources {
		isAttempt := false
		for _, sp := range src.Spec {
			if sp.FilterType == packets.FilterTypeSYNACK {
				isAttempt = true
			}
		}
		if !isAttempt {
			continue
		}
		attempts++
		for _, e := range w.Reads(i) {
			if e.Tag != nil && e.Tag.Class == "handshake" {
				delivered++
				break
			}
		}
	}
	return
}

// Result returns the request's result document, decoding the HTTP body when the request went through the handler.
func (o *ReqOutcome) Result() (*result.Results, error) {
	if o.Err != nil {
		return nil, o.Err
	}
	if o.Res != nil {
		return o.Res, nil
	}
	if len(o.Body) > 0 {
		var res result.Results
		if err := json.Unmarshal(o.Body, &res); err != nil {
			return nil, err
		}
		return &res, nil
	}
	return nil, errors.New("no result")
}

// failingWriter is a ResponseWriter whose peer disappears after limit bytes.
type failingWriter struct {
	http.ResponseWriter
	limit, n int
	seen     []byte
}

func (f *failingWriter) Write(p []byte) (int, error) {
	f.seen = append(f.seen, p...)
	room := f.limit - f.n
	if room >= len(p) {
		f.n += len(p)
		return f.ResponseWriter.Write(p)
	}
	if room > 0 {
		f.ResponseWriter.Write(p[:room])
		f.n += room
	} else {
		room = 0
	}
	return room, errors.New("write: broken pipe")
}
