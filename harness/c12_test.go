package harness

// C12: capture filters never hide a matchable reply and are exact on the tuple.

import (
	"encoding/binary"
	"fmt"
	"net/netip"
	"testing"

	"github.com/DataDog/datadog-traceroute/packets"
	"golang.org/x/net/bpf"
	"pgregory.net/rapid"
)

type filterCfg struct {
	Type  string `json:"type"` // tcp | synack | icmp | udp | drop
	Src   string `json:"src"`
	Dst   string `json:"dst"`
	SPort int    `json:"sport"`
	DPort int    `json:"dport"`
}

func (c filterCfg) spec() packets.PacketFilterSpec {
	fc := packets.FilterConfig{}
	if c.Src != "" {
		fc.Src = netip.AddrPortFrom(netip.MustParseAddr(c.Src), uint16(c.SPort))
	}
	if c.Dst != "" {
		fc.Dst = netip.AddrPortFrom(netip.MustParseAddr(c.Dst), uint16(c.DPort))
	}
	switch c.Type {
	case "tcp":
		return packets.PacketFilterSpec{FilterType: packets.FilterTypeTCP, FilterConfig: fc}
	case "synack":
		return packets.PacketFilterSpec{FilterType: packets.FilterTypeSYNACK, FilterConfig: fc}
	case "icmp":
		return packets.PacketFilterSpec{FilterType: packets.FilterTypeICMP}
	case "udp":
		return packets.PacketFilterSpec{FilterType: packets.FilterTypeUDP}
	}
	return packets.PacketFilterSpec{}
}

// vmFor compiles the program of a configuration the way a capture handle would, with one twist: between
// the moment the program is handed out and the moment it is used, a program for a different tuple is
// requested (another run setting up its own filter). The first program must be unaffected by that; the
// returned string says how it changed if it was not.
func vmFor(c filterCfg) (*bpf.VM, string, error) {
	get := func(c filterCfg) ([]bpf.RawInstruction, error) {
		if c.Type == "drop" {
			return packets.VerifDropAllFilter(), nil
		}
		return packets.VerifClassicBPF(c.spec())
	}
	prog, err := get(c)
	if err != nil {
		return nil, "", err
	}
	snap := append([]bpf.RawInstruction(nil), prog...)
	other := filterCfg{Type: c.Type, Src: "198.51.100.77", Dst: "203.0.113.9", SPort: c.SPort ^ 0x5a5a, DPort: c.DPort ^ 0x00ff}
	if other.Src == c.Src {
		other.Src = "198.51.100.78"
	}
	_, _ = get(other)
	if c.Type != "tcp" {
		_, _ = get(filterCfg{Type: "tcp", Src: other.Src, Dst: other.Dst, SPort: other.SPort, DPort: other.DPort})
	}
	changed := ""
	if len(prog) != len(snap) {
		changed = fmt.Sprintf("program length went from %d to %d instructions", len(snap), len(prog))
	} else {
		for i := range prog {
			if prog[i] != snap[i] {
				changed = fmt.Sprintf("instruction %d went from %+v to %+v", i, snap[i], prog[i])
				break
			}
		}
	}
	if changed != "" {
		changed = fmt.Sprintf("the program handed out for %+v changed when a program for %+v was requested afterwards: %s", c, other, changed)
	}
	insts, ok := bpf.Disassemble(prog)
	if !ok {
		return nil, changed, fmt.Errorf("program does not disassemble")
	}
	vm, err := bpf.NewVM(insts)
	return vm, changed, err
}

// ---- reference predicates, written from the property text (classic BPF: an out-of-bounds load rejects) ----

func u16(f []byte, off int) (uint16, bool) {
	if off+2 > len(f) {
		return 0, false
	}
	return binary.BigEndian.Uint16(f[off:]), true
}

func refICMP(f []byte) bool {
	et, ok := u16(f, 12)
	if !ok {
		return false
	}
	switch et {
	case 0x0800:
		return len(f) > 23 && f[23] == 1
	case 0x86dd:
		if len(f) <= 20 {
			return false
		}
		if f[20] == 58 {
			return true
		}
		return f[20] == 44 && len(f) > 54 && f[54] == 58
	}
	return false
}

func refSynAck(f []byte) bool {
	et, ok := u16(f, 12)
	if !ok || et != 0x0800 || len(f) <= 23 || f[23] != 6 {
		return false
	}
	frag, ok := u16(f, 20)
	if !ok || frag&0x1fff != 0 {
		return false
	}
	if len(f) <= 14 {
		return false
	}
	x := 4 * int(f[14]&0xf)
	if x+27 >= len(f) {
		return false
	}
	fl := f[x+27]
	return fl&0x02 != 0 && fl&0x10 != 0
}

func refTuple(f []byte, c filterCfg) bool {
	et, ok := u16(f, 12)
	if !ok || et != 0x0800 || len(f) <= 23 {
		return false
	}
	if f[23] == 1 {
		return true
	}
	if f[23] != 6 || len(f) < 34 {
		return false
	}
	src, dst := netip.MustParseAddr(c.Src).As4(), netip.MustParseAddr(c.Dst).As4()
	if [4]byte(f[26:30]) != src || [4]byte(f[30:34]) != dst {
		return false
	}
	frag, _ := u16(f, 20)
	if frag&0x1fff != 0 {
		return false
	}
	x := 4 * int(f[14]&0xf)
	sp, ok1 := u16(f, 14+x)
	dp, ok2 := u16(f, 16+x)
	return ok1 && ok2 && int(sp) == c.SPort && int(dp) == c.DPort
}

type frameCase struct {
	Cfg   filterCfg `json:"cfg"`
	Frame []byte    `json:"frame"`
	Note  string    `json:"note,omitempty"`
}

func checkFrame(vm *bpf.VM, c filterCfg, f []byte) (string, bool) {
	n, err := vm.Run(f)
	got := err == nil && n > 0
	switch c.Type {
	case "tcp":
		if want := refTuple(f, c); got != want {
			return fmt.Sprintf("tuple filter verdict %v, reference %v", got, want), false
		}
	case "synack":
		if want := refSynAck(f); got != want {
			return fmt.Sprintf("SYN-ACK filter verdict %v, reference %v", got, want), false
		}
	case "icmp":
		if want := refICMP(f); got != want {
			return fmt.Sprintf("ICMP filter verdict %v, reference %v", got, want), false
		}
	case "udp":
		if refICMP(f) && !got {
			return "UDP-run filter hides an ICMP packet", false
		}
	case "drop":
		if got {
			return "drop-all filter accepted a frame", false
		}
	}
	return "", true
}

// buildFrame makes an Ethernet frame of the requested class.
func buildFrame(et uint16, proto string, ihl int, frag uint16, c filterCfg, diff int, flags byte, length int) []byte {
	f := make([]byte, 14+60+60)
	binary.BigEndian.PutUint16(f[12:], et)
	src, dst := [4]byte{192, 0, 2, 2}, [4]byte{93, 184, 216, 34}
	if c.Src != "" {
		src = netip.MustParseAddr(c.Src).As4()
	}
	if c.Dst != "" {
		dst = netip.MustParseAddr(c.Dst).As4()
	}
	if et == 0x86dd {
		f[14] = 0x60
		nh := map[string]byte{"icmp": 1, "tcp": 6, "udp": 17, "icmp6": 58, "frag-icmp6": 44, "frag-tcp": 44, "other": 47}[proto]
		f[20] = nh
		if proto == "frag-icmp6" {
			f[54] = 58
		}
		if proto == "frag-tcp" {
			f[54] = 6
		}
	} else {
		f[14] = 0x40 | byte(ihl&0xf)
		binary.BigEndian.PutUint16(f[20:], frag)
		f[23] = map[string]byte{"icmp": 1, "tcp": 6, "udp": 17, "icmp6": 58, "frag-icmp6": 44, "frag-tcp": 44, "other": 47}[proto]
		copy(f[26:30], src[:])
		copy(f[30:34], dst[:])
		x := 4 * (ihl & 0xf)
		// ports and flags where the program looks for them; written after the addresses so that for IHL < 5 the overlap is what the program sees
		tuple := make([]byte, 4)
		binary.BigEndian.PutUint16(tuple[0:], uint16(c.SPort))
		binary.BigEndian.PutUint16(tuple[2:], uint16(c.DPort))
		if 14+x+4 <= len(f) && x >= 20 {
			copy(f[14+x:], tuple)
		}
		if x+27 < len(f) && x >= 20 {
			f[x+27] = flags
		}
		// one differing byte among src(0-3) dst(4-7) sport(8-9) dport(10-11)
		switch {
		case diff >= 0 && diff < 4:
			f[26+diff] ^= 0x80
		case diff >= 4 && diff < 8:
			f[30+diff-4] ^= 0x01
		case diff >= 8 && diff < 12 && x >= 20:
			f[14+x+diff-8] ^= 0x40
		}
	}
	if length >= 0 && length < len(f) {
		f = f[:length]
	}
	return f
}

var c12Configs = []filterCfg{
	{Type: "tcp", Src: "93.184.216.34", Dst: "192.0.2.2", SPort: 443, DPort: 40000},
	{Type: "tcp", Src: "0.0.0.0", Dst: "255.255.255.255", SPort: 0, DPort: 65535},
	{Type: "tcp", Src: "127.128.255.0", Dst: "128.127.0.255", SPort: 0x7fff, DPort: 0x8000},
	{Type: "tcp", Src: "255.0.127.128", Dst: "1.2.3.4", SPort: 255, DPort: 256},
	{Type: "tcp", Src: "10.0.0.1", Dst: "10.0.0.1", SPort: 1, DPort: 1},
	{Type: "synack", Src: "93.184.216.34", SPort: 443},
	{Type: "icmp"}, {Type: "udp"}, {Type: "drop"},
}

func TestC12Classes(t *testing.T) {
	rec := NewRecorder("C12", "C12Classes", "class product, enumerated completely per program: ethertype {0x0800, 0x86dd, 0x0806, other} x protocol {1, 6, 17, 58, 44->58, 44->6, other} x IHL 0..15 x fragment field {0, MF, offset 1, 0x1fff, DF; and every single bit of the word on a matching frame} x {tuple equal, exactly one of the 12 address/port bytes different} x frame lengths just below/at/above every load offset (+ full) for the tuple programs (5 address/port configurations at sign/endianness boundaries); all 256 TCP flag bytes for the SYN-ACK program; oracle: verdict of the real program in the x/net/bpf VM == reference predicate written from the property text (udp program: one-sided); non-trivial = frame within one field of the accept/reject boundary (accepted, or rejected by exactly the varied field)")
	rec.Exhaustive = true
	defer rec.Flush()
	if replayIfRequested(t, rec, checkC12Frame) {
		return
	}
	ets := []uint16{0x0800, 0x86dd, 0x0806, 0x1234}
	protos := []string{"icmp", "tcp", "udp", "icmp6", "frag-icmp6", "frag-tcp", "other"}
	frags := []uint16{0, 0x2000, 0x0001, 0x1fff, 0x4000}
	for _, cfg := range c12Configs {
		vm, changed, err := vmFor(cfg)
		if err != nil {
			t.Fatalf("program for %+v: %v", cfg, err)
		}
		if changed != "" {
			d := []Diff{{"C12", "program-changed-after-handout", changed}}
			if len(filterDiffs("C12", d, rec)) > 0 {
				rec.Violations++
				writeFailure("C12", t.Name(), &frameCase{Cfg: cfg}, d)
				t.Errorf("%s", d[0])
				return
			}
		}
		try := func(f []byte, near bool) bool {
			msg, ok := checkFrame(vm, cfg, f)
			var sample any
			if near && rec.Evals%100000 == 7 {
				sample = map[string]any{"config": cfg, "frame_hex": fmt.Sprintf("%x", f), "verdict_ok": ok}
			}
			rec.CaseEnumerated(near, sample, "program:"+cfg.Type)
			if !ok {
				fc := &frameCase{Cfg: cfg, Frame: f}
				d := []Diff{{"C12", "verdict-" + cfg.Type, fmt.Sprintf("%s for frame % x (config %+v)", msg, f, cfg)}}
				if len(filterDiffs("C12", d, rec)) > 0 {
					rec.Violations++
					writeFailure("C12", t.Name(), fc, d)
					t.Errorf("%s", d[0])
					return false
				}
			}
			return true
		}
		// every single bit of the flags / fragment-offset word on an otherwise matching frame (a mask that misses one
		// bit of the 13-bit offset only shows for that bit)
		for bit := 0; bit < 16; bit++ {
			for _, pr := range []string{"tcp", "icmp", "udp"} {
				for _, ihl := range []int{5, 6, 15} {
					for _, extra := range []uint16{0, 0x2000, 0x4000} {
						f := buildFrame(0x0800, pr, ihl, uint16(1)<<uint(bit)|extra, cfg, -1, 0x12, -1)
						if !try(f, true) {
							return
						}
					}
				}
			}
		}
		for _, et := range ets {
			for _, pr := range protos {
				for ihl := 0; ihl <= 15; ihl++ {
					if et == 0x86dd && ihl != 5 {
						continue
					}
					for _, fr := range frags {
						x := 4 * ihl
						lens := []int{-1, 12, 13, 14, 15, 20, 21, 22, 23, 24, 26, 29, 30, 33, 34, 14 + x, 14 + x + 1, 14 + x + 2, 14 + x + 3, 14 + x + 4, x + 27, x + 28, 54, 55}
						diffs := []int{-1}
						flagSet := []byte{0x12}
						switch cfg.Type {
						case "tcp":
							diffs = []int{-1, 0, 1, 2, 3, 4, 5, 6, 7, 8, 9, 10, 11}
						case "synack":
							flagSet = make([]byte, 256)
							for i := range flagSet {
								flagSet[i] = byte(i)
							}
							lens = []int{-1, 14, 23, 24, x + 27, x + 28}
						}
						for _, df := range diffs {
							for _, fl := range flagSet {
								for _, ln := range lens {
									f := buildFrame(et, pr, ihl, fr, cfg, df, fl, ln)
									near := et == 0x0800 || et == 0x86dd
									if !try(f, near && (pr == "tcp" || pr == "icmp" || pr == "icmp6" || pr == "frag-icmp6")) {
										return
									}
								}
							}
						}
					}
				}
			}
		}
	}
}

func checkC12Frame(t *testing.T, fc *frameCase, rec *Recorder) []Diff {
	vm, changed, err := vmFor(fc.Cfg)
	if err != nil {
		// an unrepresentable configuration must be refused, not mis-compiled
		rec.Case(scenarioKey(fc), false, nil, "config-refused")
		return nil
	}
	if changed != "" {
		rec.Case(scenarioKey(fc), true, fc, "program:"+fc.Cfg.Type)
		return []Diff{{"C12", "program-changed-after-handout", changed}}
	}
	msg, ok := checkFrame(vm, fc.Cfg, fc.Frame)
	near := len(fc.Frame) > 23
	rec.Case(scenarioKey(fc), near, fc, "program:"+fc.Cfg.Type)
	if !ok {
		return []Diff{{"C12", "verdict-" + fc.Cfg.Type, fmt.Sprintf("%s for frame % x (config %+v)", msg, fc.Frame, fc.Cfg)}}
	}
	return nil
}

func genAddr4(t *rapid.T, label string) string {
	b := make([]byte, 4)
	for i := range b {
		b[i] = oneOf(t, fmt.Sprintf("%s_%d", label, i), byte(0), 1, 0x7f, 0x80, 0xff, 10, 192, byte(rapid.IntRange(0, 255).Draw(t, fmt.Sprintf("%s_%d_r", label, i))))
	}
	return netip.AddrFrom4([4]byte(b)).String()
}

func TestC12Random(t *testing.T) {
	rec := NewRecorder("C12", "C12Random", "rapid: random filter configurations (address bytes from {0x00, 0x01, 0x7f, 0x80, 0xff, ...}, ports from {0, 1, 255, 256, 0x7fff, 0x8000, 0xffff, random}) x frames that are mutations of a matching frame (random byte edits, truncations, IHL/fragment/flag changes) or fully random; same oracle")
	RunProp(t, rec, func(rt *rapid.T) *frameCase {
		cfg := filterCfg{Type: oneOf(rt, "type", "tcp", "tcp", "tcp", "synack", "icmp", "udp", "drop")}
		cfg.Src, cfg.Dst = genAddr4(rt, "src"), genAddr4(rt, "dst")
		cfg.SPort = oneOf(rt, "sport", 0, 1, 255, 256, 0x7fff, 0x8000, 0xffff, rapid.IntRange(0, 65535).Draw(rt, "sport_r"))
		cfg.DPort = oneOf(rt, "dport", 0, 1, 255, 256, 0x7fff, 0x8000, 0xffff, rapid.IntRange(0, 65535).Draw(rt, "dport_r"))
		var f []byte
		if rapid.IntRange(0, 9).Draw(rt, "fully_random") == 0 {
			f = rapid.SliceOfN(rapid.Byte(), 0, 120).Draw(rt, "frame")
		} else {
			f = buildFrame(oneOf(rt, "et", uint16(0x0800), 0x0800, 0x0800, 0x86dd), oneOf(rt, "proto", "tcp", "tcp", "icmp", "icmp6", "frag-icmp6", "udp"), oneOf(rt, "ihl", 5, 5, 5, 6, 15, 0, 4),
				oneOf(rt, "frag", uint16(0), 0, 0x4000, 0x2000, 1, 0x1fff, uint16(1)<<uint(rapid.IntRange(0, 15).Draw(rt, "frag_bit")), uint16(rapid.IntRange(0, 65535).Draw(rt, "frag_r"))), cfg, oneOf(rt, "diff", -1, -1, -1, 0, 3, 4, 7, 8, 9, 10, 11), byte(rapid.IntRange(0, 255).Draw(rt, "flags")), -1)
			nEdits := rapid.IntRange(0, 3).Draw(rt, "n_edits")
			for i := 0; i < nEdits; i++ {
				off := rapid.IntRange(0, len(f)-1).Draw(rt, fmt.Sprintf("e%d_off", i))
				f[off] = byte(rapid.IntRange(0, 255).Draw(rt, fmt.Sprintf("e%d_val", i)))
			}
			if rapid.Bool().Draw(rt, "truncate") {
				f = f[:rapid.IntRange(0, len(f)).Draw(rt, "len")]
			}
		}
		return &frameCase{Cfg: cfg, Frame: f}
	}, checkC12Frame)
}

// ---- end to end: the real programs applied by the simulated capture handle never change a result ----

func TestC12EndToEnd(t *testing.T) {
	rec := NewRecorder("C12", "C12EndToEnd", "rapid: scenarios over the whole reply-form catalogue run twice, with the installed programs applied by the capture handle and with filtering ignored; oracle: identical hops wherever both runs were given the same genuine input, and every genuine reply inside the listening budget passed the filter in force; also the filter type each protocol installs (icmp/udp: ICMP program; tcp: tuple program with the run's own endpoints; sack: SYN-ACK then tuple); non-trivial = the run read >= 1 genuine reply with a non-canonical form or IPv6")
	RunProp(t, rec, func(rt *rapid.T) *Scenario {
		return GenScenario(rt, GenOpts{Forms: true, Dups: true, MaxSpan: 12, OwnWindow: true, SmallTimes: true})
	}, func(t *testing.T, sc *Scenario, rec *Recorder) []Diff {
		on := *sc
		on.FiltersOff = false
		off := *sc
		off.FiltersOff = true
		o1, o2 := RunScenario(t, &on), RunScenario(t, &off)
		if o1.Run == nil || o2.Run == nil || o1.Err != nil || o2.Err != nil {
			rec.Case(scenarioKey(sc), false, nil, "other:failed")
			return []Diff{{"C09", "run-error", fmt.Sprintf("%v / %v", o1.Err, o2.Err)}}
		}
		ds, info := CheckRun(&on, o1)
		ref2, _ := Reference(&off, o2, 0)
		if d := hopsEqual(o1, o2, info.Ref, ref2); d != "" {
			ds = append(ds, Diff{"C12", "filter-changed-result", "result with filters applied differs from the run with filtering ignored: " + d})
		}
		// which programs were installed
		if len(o1.Wire.Sources) > 0 {
			specs := o1.Wire.Sources[0].Spec
			want := map[string][]packets.PacketFilterType{
				"icmp-echo": {packets.FilterTypeICMP}, "udp": {packets.FilterTypeICMP}, "tcp-syn": {packets.FilterTypeTCP}, "tcp-ack": {packets.FilterTypeSYNACK, packets.FilterTypeTCP},
			}[sc.ProbeKind()]
			if len(specs) != len(want) {
				ds = append(ds, Diff{"C12", "filter-selection", fmt.Sprintf("%s installed %d filters, expected %d", sc.Variant, len(specs), len(want))})
			} else {
				for i := range want {
					if specs[i].FilterType != want[i] {
						ds = append(ds, Diff{"C12", "filter-selection", fmt.Sprintf("%s installed filter type %d at step %d, expected %d", sc.Variant, specs[i].FilterType, i, want[i])})
					}
				}
				if s := o1.Wire.Sends(0); len(s) > 0 && s[0].Probe != nil && (sc.ProbeKind() == "tcp-syn" || sc.ProbeKind() == "tcp-ack") {
					p := s[0].Probe
					last := specs[len(specs)-1].FilterConfig
					if last.Src != netip.AddrPortFrom(p.IP.Dst, p.DPort) || last.Dst != netip.AddrPortFrom(p.IP.Src, p.SPort) {
						ds = append(ds, Diff{"C12", "filter-endpoints", fmt.Sprintf("tuple filter %v -> %v does not describe replies to the run's flow %s:%d -> %s:%d", last.Src, last.Dst, p.IP.Src, p.SPort, p.IP.Dst, p.DPort)})
					}
				}
			}
		}
		nt := false
		for _, e := range info.Accepted {
			if e.Tag.Form != "min" && e.Tag.Form != "" || sc.IsV6() {
				nt = true
			}
		}
		rec.Case(scenarioKey(sc), nt, nil, "variant:"+sc.Variant)
		return ds
	})
}
