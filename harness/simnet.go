package harness

// simnet: a simulated shared-medium wire that is handed to the unmodified protocol entry points
// through the verif-tagged constructor seam (packets.SetVerifHooks). Every capture handle sees every
// inbound packet and the tool's own probes (AF_PACKET / ETH_P_ALL semantics) after they pass the
// real classic-BPF program the code installed, executed in the x/net/bpf VM.

import (
	"syscall"
	"runtime"
	"container/heap"
	"context"
	"errors"
	"fmt"
	"net"
	"net/netip"
	"os"
	"sync"
	"sync/atomic"
	"time"

	"github.com/DataDog/datadog-traceroute/packets"
	"golang.org/x/net/bpf"
)

// Tag is the ground truth the world model attaches to every packet it puts on the wire.
type Tag struct {
	ID         int    `json:"id"`
	Class      string `json:"class"` // genuine | perturbed | noise | own | handshake
	Flow       string `json:"flow,omitempty"`
	CreditTTL  int    `json:"ttl,omitempty"`
	Responder  string `json:"responder,omitempty"`
	IsDestForm bool   `json:"dest_form,omitempty"`
	FromTarget bool   `json:"from_target,omitempty"`
	Field      string `json:"field,omitempty"` // perturbed field / noise kind
	MustReject bool   `json:"must_reject,omitempty"`
	Form       string `json:"form,omitempty"`
	CausedBy   int    `json:"caused_by,omitempty"` // TTL of the probe that caused this packet
}

// Sched is a packet the world wants delivered after Delay.
type Sched struct {
	Delay time.Duration
	Data  []byte
	Tag   Tag
}

// Event is one ledger entry.
type Event struct {
	At     time.Duration `json:"at"`
	Kind   string        `json:"kind"` // sink | source | factory
	Handle int           `json:"h"`
	Op     string        `json:"op"`
	N      int           `json:"n,omitempty"`
	Data   []byte        `json:"-"`
	Err    string        `json:"err,omitempty"`
	Tag    *Tag          `json:"tag,omitempty"`
	Probe  *Probe        `json:"-"`
	PErr   string        `json:"perr,omitempty"` // probe validation error
	Dst    string        `json:"dst,omitempty"`
	Note   string        `json:"note,omitempty"`
	Arr    time.Duration `json:"arr,omitempty"` // reads: instant the packet became available on the wire
}

// Fault injects one failure.
type Fault struct {
	Kind   string `json:"kind"`           // sink | source | sinkfactory | sourcefactory
	Handle int    `json:"handle"`         // creation index among its kind, -1 = any
	Op     string `json:"op"`             // WriteTo | Read | SetReadDeadline | SetPacketFilter | Close
	K      int    `json:"k"`              // 1-based call count (per handle and op)
	Class  string `json:"class"`          // fatal | deadline | zero
	Late   bool   `json:"late,omitempty"` // source Read, sink WriteTo (with write lag): the failure is returned when the call ends, not when it begins
}

// InjectedErr is the unique sentinel returned by a fired fatal fault.
type InjectedErr struct {
	ID int
	// Kind and Handle name the handle whose operation failed ("sink" / "source" and its index)
	Kind   string
	Handle int
	// TimeoutLike: the failure is a timeout of the operating system's (ETIMEDOUT and friends): it answers
	// Timeout() and matches the standard deadline errors, as net.OpError timeouts do
	TimeoutLike bool
}

func (e *InjectedErr) Error() string {
	if e.TimeoutLike {
		return fmt.Sprintf("injected fault #%d: i/o timeout", e.ID)
	}
	return fmt.Sprintf("injected fault #%d", e.ID)
}
func (e *InjectedErr) Timeout() bool { return e.TimeoutLike }
func (e *InjectedErr) Is(t error) bool {
	return e.TimeoutLike && (t == context.DeadlineExceeded || t == os.ErrDeadlineExceeded)
}

// World decides what the network does.
type World interface {
	// OnProbe is called for every packet written to any sink, with the wire lock held.
	OnProbe(w *Wire, sink int, raw []byte, p *Probe, perr error, dst netip.AddrPort) []Sched
	// OnRead is called at the start of every Source.Read, with the wire lock held (SACK accept).
	OnRead(w *Wire, source int) []Sched
}

type pkt struct {
	at   time.Time
	seq  int
	data []byte
	tag  Tag
}

type pktHeap []*pkt

func (h pktHeap) Len() int { return len(h) }
func (h pktHeap) Less(i, j int) bool {
	if h[i].at.Equal(h[j].at) {
		return h[i].seq < h[j].seq
	}
	return h[i].at.Before(h[j].at)
}
func (h pktHeap) Swap(i, j int) { h[i], h[j] = h[j], h[i] }
func (h *pktHeap) Push(x any)   { *h = append(*h, x.(*pkt)) }
func (h *pktHeap) Pop() any {
	o := *h
	x := o[len(o)-1]
	*h = o[:len(o)-1]
	return x
}

// Wire is one shared medium.
type Wire struct {
	mu           sync.Mutex
	epoch        time.Time
	world        World
	Sources      []*SimSource
	Sinks        []*SimSink
	Ledger       []Event
	all          []*pkt
	nextSeq      int
	nextTag      int
	Faults       []Fault
	prog         atomic.Int64   // bumped by every wire event (wedge monitor)
	lagging      atomic.Int32   // writes currently sleeping their lag
	finished     atomic.Bool    // the entry point has returned (a lagging write left behind is then of no interest)
	PortProblems []string       // source ports that no socket of the process held while probes were sent from them
	Fired        []*InjectedErr // sentinels of fired fatal faults, in firing order
	FiredOther   int            // fired non-fatal faults
	FiredList    []Fault        // every fault that fired, in order
	FiltersOff   bool
	NoLoopback   bool
	WriteLag     time.Duration // virtual duration of every WriteTo call
	BufMutated   []string      // WriteTo buffers that changed during the call
	nFaultID     int
	sinkMade     int
	srcMade      int
	Returned     bool // set by the harness when the entry point returned; later ops are recorded as violations
	LateOps      []string
	// virtual-time watchdog: after MaxVirtual every I/O call fails, so a run that would never end does
	MaxVirtual time.Duration
	Overrun    bool
	Spin       bool // Overrun because of a busy loop at one virtual instant
	spinAt     time.Duration
	spinN      int
	// counters
	Filtered int
	Drained  int
}

func NewWire(world World) *Wire {
	w := &Wire{epoch: time.Now(), world: world}
	activeWire.Store(w)
	return w
}

// ---- wedge monitor ----
// A write that takes virtual time (WriteLag) sleeps on the bubble's fake clock, which only moves when every
// goroutine of the bubble is durably blocked. A goroutine waiting for a sync.Mutex is not: if the code under
// test holds one of its locks across the socket write and another of its goroutines wants that lock, the
// clock can never move again and the case would only end at the test binary's timeout. The monitor lives
// outside every bubble (it is started from init), sees through atomics that a write has been "in progress"
// for 15 s of REAL time without a single wire event, and reports the case it knows to be in flight.
var activeWire atomic.Pointer[Wire]

const wedgeAfter = 30 * time.Second

func init() {
	go func() {
		var last int64 = -1
		var lastWire *Wire
		var since time.Time
		for {
			time.Sleep(time.Second)
			w := activeWire.Load()
			if w == nil || w.lagging.Load() == 0 || w.finished.Load() {
				lastWire, last = nil, -1
				continue
			}
			if p := w.prog.Load(); w != lastWire || p != last {
				lastWire, last, since = w, p, time.Now()
				continue
			}
			if time.Since(since) >= wedgeAfter {
				reportWedge(fmt.Sprintf("a probe write has been in progress for %v of real time without any other activity on the wire: the virtual clock cannot advance, i.e. a goroutine of the run is waiting for a lock that is held across the socket write", wedgeAfter))
			}
		}
	}()
}

func (w *Wire) since() time.Duration { return time.Since(w.epoch) }

var errWatchdog = errors.New("harness watchdog: virtual time limit exceeded")

// expired reports (with the lock held) whether the virtual-time limit has passed, or whether the code
// under test is spinning: an enormous number of I/O calls without the virtual clock moving at all
// (e.g. a retry loop around a read whose deadline is already in the past) would otherwise never end.
func (w *Wire) expired() bool {
	if w.Overrun {
		return true
	}
	now := time.Since(w.epoch)
	if w.MaxVirtual > 0 && now > w.MaxVirtual {
		w.Overrun = true
		return true
	}
	if now == w.spinAt {
		w.spinN++
		if w.spinN > 300_000 {
			w.Overrun, w.Spin = true, true
			return true
		}
	} else {
		w.spinAt, w.spinN = now, 0
	}
	return false
}

// Hooks returns the constructor seam for packets.SetVerifHooks.
func (w *Wire) Hooks() *packets.VerifHooks {
	return &packets.VerifHooks{NewSink: w.newSink, NewSource: w.newSource}
}

func (w *Wire) log(e Event) {
	w.prog.Add(1)
	e.At = w.since()
	if w.Returned {
		w.LateOps = append(w.LateOps, fmt.Sprintf("%s#%d.%s after return", e.Kind, e.Handle, e.Op))
	}
	if w.spinN > 50_000 {
		return // a busy loop at one virtual instant: stop recording, the watchdog will end it
	}
	w.Ledger = append(w.Ledger, e)
}

// fault returns the fault that fires for this call, if any.
func (w *Wire) fault(kind string, handle int, op string, k int) *Fault {
	for i := range w.Faults {
		f := &w.Faults[i]
		if f.Kind == kind && f.Op == op && f.K == k && (f.Handle == handle || f.Handle < 0) {
			return f
		}
	}
	return nil
}

func (w *Wire) fire(f *Fault) error {
	w.FiredList = append(w.FiredList, *f)
	switch f.Class {
	case "deadline":
		w.FiredOther++
		return os.ErrDeadlineExceeded
	case "zero":
		w.FiredOther++
		return nil
	default:
		w.nFaultID++
		e := &InjectedErr{ID: w.nFaultID, TimeoutLike: f.Class == "fatal-timeout", Kind: f.Kind, Handle: f.Handle}
		w.Fired = append(w.Fired, e)
		return e
	}
}

// goroutineID parses the running goroutine's number from its stack header.
func goroutineID() uint64 {
	var buf [64]byte
	n := runtime.Stack(buf[:], false)
	var id uint64
	fmt.Sscanf(string(buf[:n]), "goroutine %d ", &id)
	return id
}

// OwnerOf names the handle pair (by its sink index) an injected failure belongs to; a source that was made
// without a sink is its own owner.
func (w *Wire) OwnerOf(e *InjectedErr) int {
	w.mu.Lock()
	defer w.mu.Unlock()
	switch {
	case e.Kind == "source" && e.Handle >= 0 && e.Handle < len(w.Sources):
		if p := w.Sources[e.Handle].PairSink; p >= 0 {
			return p
		}
		return -1000 - e.Handle
	case e.Kind == "sink" && e.Handle >= 0:
		return e.Handle
	}
	// a fault that names no handle (factories, "any handle"): every firing is its own owner
	return -1000000 - e.ID
}

// schedule puts packets on the medium; lock must be held.
func (w *Wire) schedule(ss []Sched) {
	now := time.Now()
	for _, s := range ss {
		w.nextSeq++
		w.nextTag++
		t := s.Tag
		t.ID = w.nextTag
		p := &pkt{at: now.Add(s.Delay), seq: w.nextSeq, data: s.Data, tag: t}
		w.all = append(w.all, p)
		for _, src := range w.Sources {
			if !src.closed {
				heap.Push(&src.q, p)
				src.kick()
			}
		}
	}
}

// Inject lets the harness put packets on the wire from outside (noise plans).
func (w *Wire) Inject(ss []Sched) {
	w.mu.Lock()
	defer w.mu.Unlock()
	w.schedule(ss)
}

func (w *Wire) newSink(addr netip.Addr) (packets.Sink, error) {
	w.mu.Lock()
	defer w.mu.Unlock()
	w.sinkMade++
	if f := w.fault("sinkfactory", -1, "New", w.sinkMade); f != nil {
		err := w.fire(f)
		w.log(Event{Kind: "factory", Op: "NewSink", Err: fmt.Sprint(err)})
		return nil, err
	}
	s := &SimSink{w: w, idx: len(w.Sinks), addr: addr, gid: goroutineID()}
	w.Sinks = append(w.Sinks, s)
	w.log(Event{Kind: "sink", Handle: s.idx, Op: "New", Note: addr.String()})
	return s, nil
}

func (w *Wire) newSource() (packets.Source, error) {
	w.mu.Lock()
	defer w.mu.Unlock()
	w.srcMade++
	if f := w.fault("sourcefactory", -1, "New", w.srcMade); f != nil {
		err := w.fire(f)
		w.log(Event{Kind: "factory", Op: "NewSource", Err: fmt.Sprint(err)})
		return nil, err
	}
	s := &SimSource{w: w, idx: len(w.Sources), wake: make(chan struct{}, 1), calls: map[string]int{}, PairSink: -1}
	// a sink/source handle pair is made by one goroutine, the sink first: the source belongs with the latest
	// sink of its goroutine that has no source yet
	gid := goroutineID()
	for i := len(w.Sinks) - 1; i >= 0; i-- {
		if w.Sinks[i].gid == gid && !w.Sinks[i].paired {
			w.Sinks[i].paired = true
			s.PairSink = i
			break
		}
	}
	now := time.Now()
	for _, p := range w.all {
		if !p.at.Before(now) {
			heap.Push(&s.q, p)
		}
	}
	w.Sources = append(w.Sources, s)
	w.log(Event{Kind: "source", Handle: s.idx, Op: "New"})
	return s, nil
}

// ---- sink ----

type SimSink struct {
	w           *Wire
	idx         int
	gid         uint64
	paired      bool
	addr        netip.Addr
	closed      bool
	Closes      int
	nWrite      int
	nClose      int
	portChecked bool
}

// portIsFree tries to bind the address/port with the real kernel (and lets go at once).
func portIsFree(kind string, a netip.Addr, port uint16) bool {
	ap := netip.AddrPortFrom(a, port)
	if kind == "udp" {
		c, err := net.ListenUDP("udp", net.UDPAddrFromAddrPort(ap))
		if err == nil {
			c.Close()
			return true
		}
		// a port whose holder allows address reuse is handed out again to any socket that allows it too (and the
		// kernel's automatic port choice then no longer treats it as taken)
		lc := net.ListenConfig{Control: func(network, address string, rc syscall.RawConn) error {
			return rc.Control(func(fd uintptr) { syscall.SetsockoptInt(int(fd), syscall.SOL_SOCKET, syscall.SO_REUSEADDR, 1) })
		}}
		pc, err := lc.ListenPacket(context.Background(), "udp", ap.String())
		if err != nil {
			return false
		}
		pc.Close()
		return true
	}
	l, err := net.ListenTCP("tcp", net.TCPAddrFromAddrPort(ap))
	if err != nil {
		return false
	}
	l.Close()
	return true
}

func (s *SimSink) WriteTo(buf []byte, dst netip.AddrPort) error {
	w := s.w
	w.mu.Lock()
	defer w.mu.Unlock()
	s.nWrite++
	if w.expired() {
		return errWatchdog
	}
	raw := append([]byte(nil), buf...)
	if s.closed {
		w.log(Event{Kind: "sink", Handle: s.idx, Op: "WriteTo", Data: raw, Note: "use-after-close"})
		return os.ErrClosed
	}
	var lateW *Fault
	if f := w.fault("sink", s.idx, "WriteTo", s.nWrite); f != nil && f.Late && w.WriteLag > 0 {
		// the write blocks for its lag and fails when it ends; the packet never leaves
		lateW = f
	} else if f != nil {
		err := w.fire(f)
		if err == nil {
			err = errors.New("short write")
		}
		w.log(Event{Kind: "sink", Handle: s.idx, Op: "WriteTo", Data: raw, Err: err.Error(), Dst: dst.String()})
		return err
	}
	if lateW != nil {
		w.mu.Unlock()
		w.lagging.Add(1)
		time.Sleep(w.WriteLag)
		w.lagging.Add(-1)
		w.prog.Add(1)
		w.mu.Lock()
		err := w.fire(lateW)
		if err == nil {
			err = errors.New("short write")
		}
		w.log(Event{Kind: "sink", Handle: s.idx, Op: "WriteTo", Data: raw, Err: err.Error(), Dst: dst.String(), Note: "failed at the end of the call"})
		return err
	}
	p, perr := ValidateProbe(raw)
	ev := Event{Kind: "sink", Handle: s.idx, Op: "WriteTo", Data: raw, N: len(raw), Probe: p, Dst: dst.String()}
	if perr != nil {
		ev.PErr = perr.Error()
	}
	w.log(ev)
	if perr == nil && p != nil && !s.portChecked && (p.Kind == "udp" || p.Kind == "tcp-syn") {
		// the source port is what tells concurrent runs apart: while a run's probes are on the wire the port must
		// be held by a socket of this process, otherwise the kernel may hand it to the next run. Asked at every
		// probe (a reservation may lapse in the middle of a run) until the first problem.
		if free := portIsFree(p.Kind, p.IP.Src, p.SPort); free {
			s.portChecked = true
			w.PortProblems = append(w.PortProblems, fmt.Sprintf("handle %d sends a %s probe (TTL %d, #%d of the handle) from %s port %d at %v, but no socket of the process holds that port (the kernel may hand it to a concurrent run)", s.idx, p.Kind, p.TTL, s.nWrite, p.IP.Src, p.SPort, w.since()))
		}
	}
	var ss []Sched
	if !w.NoLoopback {
		ss = append(ss, Sched{Data: raw, Tag: Tag{Class: "own"}})
	}
	if w.world != nil {
		ss = append(ss, w.world.OnProbe(w, s.idx, raw, p, perr, dst)...)
	}
	w.schedule(ss)
	if w.WriteLag > 0 {
		// the write call itself takes (virtual) time: the reply may be fully handled by the receiver before
		// WriteTo returns, and whoever owns buf must not touch it until then
		w.mu.Unlock()
		w.lagging.Add(1)
		time.Sleep(w.WriteLag)
		w.lagging.Add(-1)
		w.prog.Add(1)
		w.mu.Lock()
		if string(buf) != string(raw) {
			w.BufMutated = append(w.BufMutated, fmt.Sprintf("sink#%d: the buffer passed to WriteTo changed while the write was in progress (entry % x, exit % x)", s.idx, raw[:min(len(raw), 48)], buf[:min(len(buf), 48)]))
		}
	}
	return nil
}

func (s *SimSink) Close() error {
	w := s.w
	w.mu.Lock()
	defer w.mu.Unlock()
	s.nClose++
	s.Closes++
	note := ""
	if s.closed {
		note = "double-close"
	}
	s.closed = true
	var err error
	if f := w.fault("sink", s.idx, "Close", s.nClose); f != nil {
		err = w.fire(f)
	}
	ev := Event{Kind: "sink", Handle: s.idx, Op: "Close", Note: note}
	if err != nil {
		ev.Err = err.Error()
	}
	w.log(ev)
	return err
}

// ---- source ----

type SimSource struct {
	w           *Wire
	idx         int
	PairSink    int // index of the sink created together with this source, -1 if none
	q           pktHeap
	wake        chan struct{}
	deadline    time.Time
	closed      bool
	Closes      int
	calls       map[string]int
	vm          *bpf.VM
	hasFilter   bool
	filterSince time.Time
	Spec        []packets.PacketFilterSpec
	Delivered   int
}

func (s *SimSource) kick() {
	select {
	case s.wake <- struct{}{}:
	default:
	}
}

func (s *SimSource) SetReadDeadline(t time.Time) error {
	w := s.w
	w.mu.Lock()
	defer w.mu.Unlock()
	s.calls["SetReadDeadline"]++
	if w.expired() {
		return errWatchdog
	}
	if s.closed {
		w.log(Event{Kind: "source", Handle: s.idx, Op: "SetReadDeadline", Note: "use-after-close"})
		return os.ErrClosed
	}
	if f := w.fault("source", s.idx, "SetReadDeadline", s.calls["SetReadDeadline"]); f != nil {
		err := w.fire(f)
		if err == nil {
			err = errors.New("deadline not supported")
		}
		w.log(Event{Kind: "source", Handle: s.idx, Op: "SetReadDeadline", Err: err.Error()})
		return err
	}
	s.deadline = t
	w.log(Event{Kind: "source", Handle: s.idx, Op: "SetReadDeadline", Note: t.Sub(w.epoch).String()})
	s.kick()
	return nil
}

// frameFor builds the Ethernet frame the kernel would run the socket filter on.
func frameFor(data []byte) []byte {
	f := make([]byte, 14+len(data))
	et := uint16(0x0800)
	if len(data) > 0 && data[0]>>4 == 6 {
		et = 0x86dd
	}
	f[12], f[13] = byte(et>>8), byte(et)
	copy(f[14:], data)
	return f
}

func (s *SimSource) passes(data []byte) bool {
	if !s.hasFilter || s.w.FiltersOff {
		return true
	}
	n, err := s.vm.Run(frameFor(data))
	return err == nil && n > 0
}

func (s *SimSource) SetPacketFilter(spec packets.PacketFilterSpec) error {
	w := s.w
	w.mu.Lock()
	defer w.mu.Unlock()
	s.calls["SetPacketFilter"]++
	if s.closed {
		w.log(Event{Kind: "source", Handle: s.idx, Op: "SetPacketFilter", Note: "use-after-close"})
		return os.ErrClosed
	}
	if f := w.fault("source", s.idx, "SetPacketFilter", s.calls["SetPacketFilter"]); f != nil {
		err := w.fire(f)
		if err == nil {
			err = errors.New("filter rejected")
		}
		w.log(Event{Kind: "source", Handle: s.idx, Op: "SetPacketFilter", Err: err.Error()})
		return err
	}
	s.Spec = append(s.Spec, spec)
	if spec.FilterType == packets.FilterTypeNone {
		s.hasFilter = false
		w.log(Event{Kind: "source", Handle: s.idx, Op: "SetPacketFilter", Note: "none"})
		return nil
	}
	prog, err := packets.VerifClassicBPF(spec)
	if err != nil {
		err = fmt.Errorf("SetPacketFilter failed to get BPF filter program: %w", err)
		w.log(Event{Kind: "source", Handle: s.idx, Op: "SetPacketFilter", Err: err.Error()})
		return err
	}
	insts, ok := bpf.Disassemble(prog)
	if !ok {
		err = errors.New("SetPacketFilter: program does not disassemble")
		w.log(Event{Kind: "source", Handle: s.idx, Op: "SetPacketFilter", Err: err.Error()})
		return err
	}
	vm, err := bpf.NewVM(insts)
	if err != nil {
		err = fmt.Errorf("SetPacketFilter: kernel would reject program: %w", err)
		w.log(Event{Kind: "source", Handle: s.idx, Op: "SetPacketFilter", Err: err.Error()})
		return err
	}
	s.vm, s.hasFilter = vm, true
	// SetBPFAndDrain semantics: everything queued and unread is discarded
	s.filterSince = time.Now()
	w.log(Event{Kind: "source", Handle: s.idx, Op: "SetPacketFilter", Note: fmt.Sprintf("type=%d src=%s dst=%s", spec.FilterType, spec.FilterConfig.Src, spec.FilterConfig.Dst)})
	return nil
}

func (s *SimSource) Read(buf []byte) (int, error) {
	w := s.w
	first := true
	var late *Fault
	endLate := func(what string) (int, error) {
		err := w.fire(late)
		ev := Event{Kind: "source", Handle: s.idx, Op: "Read", Note: "fault:" + late.Class + "(at the end of the call: " + what + ")"}
		if err != nil {
			ev.Err = err.Error()
		}
		w.log(ev)
		w.mu.Unlock()
		return 0, err
	}
	for {
		w.mu.Lock()
		if w.expired() {
			w.mu.Unlock()
			return 0, errWatchdog
		}
		if first {
			first = false
			s.calls["Read"]++
			if s.closed {
				w.log(Event{Kind: "source", Handle: s.idx, Op: "Read", Note: "use-after-close"})
				w.mu.Unlock()
				return 0, os.ErrClosed
			}
			if f := w.fault("source", s.idx, "Read", s.calls["Read"]); f != nil && f.Late {
				// the failure shows when the call ends (after it has waited for a packet or its deadline), not when it begins
				late = f
			} else if f != nil {
				err := w.fire(f)
				ev := Event{Kind: "source", Handle: s.idx, Op: "Read", Note: "fault:" + f.Class}
				if err != nil {
					ev.Err = err.Error()
				}
				w.log(ev)
				w.mu.Unlock()
				return 0, err
			}
			if w.world != nil {
				if ss := w.world.OnRead(w, s.idx); len(ss) > 0 {
					w.schedule(ss)
				}
			}
		}
		if s.closed {
			w.log(Event{Kind: "source", Handle: s.idx, Op: "Read", Err: "closed during read"})
			w.mu.Unlock()
			return 0, os.ErrClosed
		}
		now := time.Now()
		if !s.deadline.IsZero() && !now.Before(s.deadline) {
			if late != nil {
				return endLate("deadline")
			}
			w.log(Event{Kind: "source", Handle: s.idx, Op: "Read", Err: "deadline"})
			w.mu.Unlock()
			return 0, os.ErrDeadlineExceeded
		}
		for s.q.Len() > 0 && !s.q[0].at.After(now) {
			p := heap.Pop(&s.q).(*pkt)
			if p.at.Before(s.filterSince) {
				w.Drained++
				continue
			}
			if !s.passes(p.data) {
				w.Filtered++
				continue
			}
			if late != nil {
				heap.Push(&s.q, p)
				return endLate("a packet was due")
			}
			n := copy(buf, p.data)
			t := p.tag
			s.Delivered++
			w.log(Event{Kind: "source", Handle: s.idx, Op: "Read", N: n, Data: p.data, Tag: &t, Arr: p.at.Sub(w.epoch)})
			w.mu.Unlock()
			return n, nil
		}
		var until time.Duration = -1
		if s.q.Len() > 0 {
			until = s.q[0].at.Sub(now)
		}
		if !s.deadline.IsZero() {
			if d := s.deadline.Sub(now); until < 0 || d < until {
				until = d
			}
		}
		w.mu.Unlock()
		if until < 0 {
			<-s.wake
			continue
		}
		tm := time.NewTimer(until)
		select {
		case <-tm.C:
		case <-s.wake:
			tm.Stop()
		}
	}
}

func (s *SimSource) Close() error {
	w := s.w
	w.mu.Lock()
	defer w.mu.Unlock()
	s.calls["Close"]++
	s.Closes++
	note := ""
	if s.closed {
		note = "double-close"
	}
	s.closed = true
	var err error
	if f := w.fault("source", s.idx, "Close", s.calls["Close"]); f != nil {
		err = w.fire(f)
	}
	ev := Event{Kind: "source", Handle: s.idx, Op: "Close", Note: note}
	if err != nil {
		ev.Err = err.Error()
	}
	w.log(ev)
	s.kick()
	return err
}

// ---- ledger helpers ----

// Sends returns the WriteTo events of one sink (or all with idx < 0) in order.
func (w *Wire) Sends(idx int) []Event {
	var out []Event
	for _, e := range w.Ledger {
		if e.Kind == "sink" && e.Op == "WriteTo" && (idx < 0 || e.Handle == idx) && e.Err == "" && e.Note == "" {
			out = append(out, e)
		}
	}
	return out
}

// Reads returns the successful Read events of one source (or all with idx < 0) in order.
func (w *Wire) Reads(idx int) []Event {
	var out []Event
	for _, e := range w.Ledger {
		if e.Kind == "source" && e.Op == "Read" && e.Tag != nil && (idx < 0 || e.Handle == idx) {
			out = append(out, e)
		}
	}
	return out
}

// HandleProblems reports close-count / use-after-close / late-operation problems (C10).
func (w *Wire) HandleProblems() []string {
	var out []string
	for _, s := range w.Sinks {
		if s.Closes != 1 {
			out = append(out, fmt.Sprintf("sink#%d closed %d times", s.idx, s.Closes))
		}
	}
	for _, s := range w.Sources {
		if s.Closes != 1 {
			out = append(out, fmt.Sprintf("source#%d closed %d times", s.idx, s.Closes))
		}
	}
	for _, e := range w.Ledger {
		if e.Note == "use-after-close" {
			out = append(out, fmt.Sprintf("%s#%d.%s used after close", e.Kind, e.Handle, e.Op))
		}
	}
	out = append(out, w.LateOps...)
	return out
}
