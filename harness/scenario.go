package harness

import (
	"errors"
	"context"
	"fmt"
	"net"
	"net/netip"
	"os"
	"runtime"
	"runtime/debug"
	"strings"
	"testing"
	"testing/synctest"
	"time"

	"github.com/DataDog/datadog-traceroute/common"
	"github.com/DataDog/datadog-traceroute/icmp"
	"github.com/DataDog/datadog-traceroute/packets"
	"github.com/DataDog/datadog-traceroute/result"
	"github.com/DataDog/datadog-traceroute/sack"
	"github.com/DataDog/datadog-traceroute/tcp"
	"github.com/DataDog/datadog-traceroute/udp"
)

// Variants of the tool; udp/tcp/sack additionally have strict/relaxed quoted-source checking.
var AllVariants = []string{"icmp4", "icmp6", "udp4", "udp6", "tcp", "tcp-paris", "sack"}

// Scenario is one complete, replayable case for a single protocol-level run.
type Scenario struct {
	Variant     string      `json:"variant"`
	Strict      bool        `json:"strict"`
	MinTTL      int         `json:"min_ttl"`
	MaxTTL      int         `json:"max_ttl"`
	TimeoutMs   int         `json:"timeout_ms"`
	DelayMs     int         `json:"delay_ms"`
	PollMs      int         `json:"poll_ms"` // icmp and sack only; udp/tcp hard-code 100 ms
	Target      string      `json:"target"`
	Port        int         `json:"port"`
	EchoBase    uint32      `json:"echo_base"`
	PktIDBase   uint32      `json:"pktid_base"`
	SeqMode     string      `json:"seq_mode,omitempty"` // "" production randomness | fixed | ladder
	SeqBase     uint32      `json:"seq_base,omitempty"`
	Script      FlowScript  `json:"script"`
	Noise       []NoiseItem `json:"noise,omitempty"`
	Muts        []MutSpec   `json:"muts,omitempty"`
	Flood       *FloodSpec  `json:"flood,omitempty"`
	Sack        SackCfg     `json:"sack"`
	Faults      []Fault     `json:"faults,omitempty"`
	FiltersOff  bool        `json:"filters_off,omitempty"`
	CancelAtUs  int64       `json:"cancel_at_us,omitempty"` // cancel the context this long after start (icmp, sack)
	CancelDL    bool        `json:"cancel_deadline,omitempty"` // the context ends through a deadline of its own (DeadlineExceeded) instead of an explicit cancel
	HandshakeMs int         `json:"handshake_ms,omitempty"`
	WriteLagUs  int64       `json:"write_lag_us,omitempty"` // virtual duration of each WriteTo call
	Reuse       int         `json:"reuse,omitempty"`        // udp/tcp: run the same configuration value this many times in a row
	ReuseFrom   string      `json:"reuse_from,omitempty"`   // with Reuse: the earlier runs go to this address; the value's Target field is then set to Target for the last run
	ReusePort   int         `json:"reuse_port,omitempty"`   // with Reuse: the earlier runs go to this port (0 = the scenario's)
	earlier     []earlierRun
}

type earlierRun struct {
	Run *result.TracerouteRun
	Err error
}

func (sc *Scenario) IsV6() bool   { return strings.HasSuffix(sc.Variant, "6") }
// runIdx is the index of the capture/send handles of the run whose result RunScenario returns (the last one
// when a configuration value is reused).
func (sc *Scenario) runIdx() int {
	if sc.Reuse > 1 {
		return sc.Reuse - 1
	}
	return 0
}

func (sc *Scenario) Serial() bool { return strings.HasPrefix(sc.Variant, "tcp") }
func (sc *Scenario) Poll() time.Duration {
	switch sc.Variant {
	case "icmp4", "icmp6", "sack":
		if sc.PollMs > 0 {
			return time.Duration(sc.PollMs) * time.Millisecond
		}
	}
	return 100 * time.Millisecond
}
func (sc *Scenario) Timeout() time.Duration { return time.Duration(sc.TimeoutMs) * time.Millisecond }
func (sc *Scenario) Delay() time.Duration   { return time.Duration(sc.DelayMs) * time.Millisecond }
func (sc *Scenario) ProbeKind() string {
	switch sc.Variant {
	case "icmp4", "icmp6":
		return "icmp-echo"
	case "udp4", "udp6":
		return "udp"
	case "sack":
		return "tcp-ack"
	}
	return "tcp-syn"
}

// Outcome is everything observable about one run.
type Outcome struct {
	Run                 *result.TracerouteRun
	Err                 error
	Panic               string
	Deadlock            string
	Wire                *Wire
	World               *NetWorld
	Start               time.Duration // wire time at which the entry point was called
	Elapsed             time.Duration
	GorBefore, GorAfter int
	FdBefore, FdAfter   int
	FdList              string
	SackAccepts         int
}

func parallelParams(sc *Scenario) common.TracerouteParallelParams {
	return common.TracerouteParallelParams{TracerouteParams: common.TracerouteParams{
		MinTTL: uint8(sc.MinTTL), MaxTTL: uint8(sc.MaxTTL),
		TracerouteTimeout: sc.Timeout(), PollFrequency: sc.Poll(), SendDelay: sc.Delay(),
	}}
}

// seqFn builds the TCP sequence number override for a scenario.
func seqFn(sc *Scenario) tcp.VerifSeqFn {
	switch sc.SeqMode {
	case "fixed":
		return func(perProbe bool, ttl uint8) uint32 {
			if perProbe {
				return sc.SeqBase + uint32(ttl)*0x01000193
			}
			return sc.SeqBase
		}
	}
	return nil
}

// callEntry invokes the unmodified protocol entry point for the scenario's variant.
func callEntry(ctx context.Context, sc *Scenario, target netip.AddrPort) (*result.TracerouteRun, error) {
	switch sc.Variant {
	case "icmp4", "icmp6":
		return icmp.RunICMPTraceroute(ctx, icmp.Params{Target: target.Addr(), ParallelParams: parallelParams(sc)})
	case "udp4", "udp6":
		first := target.Addr()
		if sc.ReuseFrom != "" && sc.Reuse > 1 {
			first = netip.MustParseAddr(sc.ReuseFrom)
		}
		firstPort := target.Port()
		if sc.ReusePort != 0 && sc.Reuse > 1 {
			firstPort = uint16(sc.ReusePort)
		}
		u := udp.NewUDPv4(net.IP(first.AsSlice()), firstPort, uint8(sc.MinTTL), uint8(sc.MaxTTL), sc.Delay(), sc.Timeout(), false)
		u.LoosenICMPSrc = !sc.Strict
		// Reuse: the same configuration value is run several times in a row (the library's config structs are
		// plain values with a Traceroute method); the earlier results are kept in sc.earlier
		for i := 1; i < sc.Reuse; i++ {
			r, err := u.Traceroute()
			sc.earlier = append(sc.earlier, earlierRun{r, err})
		}
		u.Target, u.TargetPort = net.IP(target.Addr().AsSlice()), target.Port()
		return u.Traceroute()
	case "tcp", "tcp-paris":
		first := target.Addr()
		if sc.ReuseFrom != "" && sc.Reuse > 1 {
			first = netip.MustParseAddr(sc.ReuseFrom)
		}
		firstPort := target.Port()
		if sc.ReusePort != 0 && sc.Reuse > 1 {
			firstPort = uint16(sc.ReusePort)
		}
		t := tcp.NewTCPv4(net.IP(first.AsSlice()), firstPort, uint8(sc.MinTTL), uint8(sc.MaxTTL), sc.Delay(), sc.Timeout(), sc.Variant == "tcp-paris", false)
		t.LoosenICMPSrc = !sc.Strict
		for i := 1; i < sc.Reuse; i++ {
			r, err := t.Traceroute()
			sc.earlier = append(sc.earlier, earlierRun{r, err})
		}
		t.Target, t.DestPort = net.IP(target.Addr().AsSlice()), target.Port()
		return t.Traceroute()
	case "sack":
		hs := time.Duration(sc.HandshakeMs) * time.Millisecond
		if hs == 0 {
			hs = sc.Timeout()
		}
		return sack.RunSackTraceroute(ctx, sack.Params{
			Target: target, HandshakeTimeout: hs, FinTimeout: 500 * time.Millisecond,
			ParallelParams: parallelParams(sc), LoosenICMPSrc: !sc.Strict,
		})
	}
	return nil, fmt.Errorf("harness: unknown variant %q", sc.Variant)
}

// countFds counts the open socket descriptors of the process. Only sockets: everything the code under test opens
// is a socket (port-holding UDP sockets, the SACK connection, raw and packet sockets), while the Go runtime opens
// and closes files of its own at any moment (since Go 1.25 it re-reads the cgroup CPU limits and
// /sys/devices/system/cpu/online periodically), which showed as a 8 -> 9 "leak" twice in 10 thorough runs.
func countFds() int {
	d, err := os.ReadDir("/proc/self/fd")
	if err != nil {
		return -1
	}
	n := 0
	for _, e := range d {
		if l, err := os.Readlink("/proc/self/fd/" + e.Name()); err == nil && strings.HasPrefix(l, "socket:") {
			n++
		}
	}
	return n
}

// listFds describes the open descriptors (for the message of a leak report).
func listFds() string {
	d, err := os.ReadDir("/proc/self/fd")
	if err != nil {
		return err.Error()
	}
	var sb strings.Builder
	for _, e := range d {
		l, _ := os.Readlink("/proc/self/fd/" + e.Name())
		fmt.Fprintf(&sb, "%s=%s ", e.Name(), l)
	}
	return sb.String()
}

// RunScenario executes one scenario on the fake clock and returns everything observable.
func RunScenario(t *testing.T, sc *Scenario) *Outcome {
	out := &Outcome{}
	out.FdBefore = countFds()
	world := NewNetWorld(sc.Script)
	world.Noise = sc.Noise
	world.Muts = sc.Muts
	world.Flood = sc.Flood
	world.Strict = sc.Strict || sc.ProbeKind() == "icmp-echo"
	out.World = world
	target := netip.AddrPortFrom(netip.MustParseAddr(sc.Target), uint16(sc.Port))
	if sc.Variant == "sack" {
		srv, err := NewSackServer(target.Addr(), uint16(sc.Port), sc.Sack)
		if err != nil {
			out.Err = fmt.Errorf("harness: sack server: %w", err)
			out.Panic = "harness-infra: " + err.Error()
			return out
		}
		defer srv.Close()
		world.Sack = srv
		target = srv.Addr
	}
	packets.VerifSetPacketIDBase(sc.PktIDBase)
	icmp.VerifSetEchoIDBase(sc.EchoBase)
	tcp.VerifSetSeqFn(seqFn(sc))
	defer tcp.VerifSetSeqFn(nil)
	func() {
		defer func() {
			if r := recover(); r != nil {
				out.Deadlock = fmt.Sprint(r)
			}
		}()
		synctest.Test(t, func(t *testing.T) {
			w := NewWire(world)
			w.Faults = sc.Faults
			w.FiltersOff = sc.FiltersOff
			w.MaxVirtual = 3*scenarioBound(sc) + 10*time.Second
			w.WriteLag = us(sc.WriteLagUs)
			out.Wire = w
			packets.SetVerifHooks(w.Hooks())
			defer packets.SetVerifHooks(nil)
			ctx, cancel := context.WithCancel(context.Background())
			defer cancel()
			if sc.CancelAtUs < 0 {
				cancel() // already cancelled when the run starts
			}
			if sc.CancelAtUs > 0 {
				ctx = endingAt(ctx, cancel, us(sc.CancelAtUs), sc.CancelDL)
			}
			out.GorBefore = bubbleGoroutines()
			begin := time.Now()
			out.Start = w.since()
			func() {
				defer func() {
					if r := recover(); r != nil {
						out.Panic = fmt.Sprintf("%v\n%s", r, debug.Stack())
					}
				}()
				out.Run, out.Err = callEntry(ctx, sc, target)
			}()
			out.Elapsed = time.Since(begin)
			w.mu.Lock()
			w.Returned = true
			w.finished.Store(true)
			w.mu.Unlock()
			cancel()
			synctest.Wait()
			out.GorAfter = bubbleGoroutines()
			drainLeftBehind(out.GorBefore)
		})
	}()
	if world.Sack != nil {
		out.SackAccepts = world.Sack.Accepts
		world.Sack.Close()
	}
	out.FdAfter = countFds()
	if out.FdAfter > out.FdBefore {
		out.FdList = listFds()
	}
	return out
}

// scenarioBound is the termination bound computable from the parameters (C08).
func scenarioBound(sc *Scenario) time.Duration {
	return scenarioBoundNoLag(sc) + time.Duration(sc.MaxTTL-sc.MinTTL+2)*us(sc.WriteLagUs)
}

func scenarioBoundNoLag(sc *Scenario) time.Duration {
	n := time.Duration(sc.MaxTTL - sc.MinTTL + 1)
	if n < 1 {
		n = 1
	}
	switch {
	case sc.Serial():
		per := sc.Timeout() + sc.Poll()
		if sc.Delay() > per {
			per = sc.Delay()
		}
		return n * per
	case sc.Variant == "sack":
		return 500*time.Millisecond + sc.Timeout() + n*sc.Delay() + sc.Poll()
	}
	return sc.Timeout() + n*sc.Delay() + sc.Poll()
}

// bubbleGoroutines counts the goroutines that live in a synctest bubble (the runtime tags them in their
// stack header). runtime.NumGoroutine also counts the runtime's own background goroutines, which come
// and go on a busy machine and made the leak check flaky.
// drainLeftBehind gives goroutines the call left behind (virtual) time to finish. What they do after the return
// belongs to the ledger (a fault that fires later, a handle used after the return), and the bubble's clock
// stops once its main goroutine has returned: sleeping leftovers would otherwise end the case as a deadlock.
// Nothing happens when nothing was left behind.
func drainLeftBehind(before int) {
	for i := 0; i < 900 && bubbleGoroutines() > before; i++ {
		time.Sleep(time.Second)
		synctest.Wait()
	}
}

func bubbleGoroutines() int {
	buf := make([]byte, 1<<20)
	for {
		n := runtime.Stack(buf, true)
		if n < len(buf) {
			buf = buf[:n]
			break
		}
		buf = make([]byte, 2*len(buf))
	}
	return strings.Count(string(buf), ", synctest bubble ")
}

// endingAt makes the caller's context end after d: by an explicit cancel (a goroutine calls cancel), or, with
// deadline set, as a context that carries its own deadline (a library caller's context.WithTimeout).
func endingAt(ctx context.Context, cancel context.CancelFunc, d time.Duration, deadline bool) context.Context {
	if deadline {
		c, stop := context.WithDeadline(ctx, time.Now().Add(d))
		context.AfterFunc(ctx, stop) // released together with the parent
		return c
	}
	go func() {
		select {
		case <-time.After(d):
			cancel()
		case <-ctx.Done():
		}
	}()
	return ctx
}

// isCtxEnd reports whether err is the end of a context (cancelled or past its deadline).
func isCtxEnd(err error) bool {
	return errors.Is(err, context.Canceled) || errors.Is(err, context.DeadlineExceeded)
}
