package harness

// C20: TCP method policy — SACK never masked, fallback only when unsupported, syn never connects,
// end-to-end probes always SYN.

import (
	"errors"
	"fmt"
	"strings"
	"testing"

	"pgregory.net/rapid"
)

type c20Case struct {
	Method     string `json:"method"`
	Capability string `json:"capability"` // ok-ts | ok | no-permit | plain-ack | closed | no-synack
	FaultKind  string `json:"fault"`      // "" | filter1 | filter2 | send | read | srcfactory | sinkfactory | deadline
	FaultK     int    `json:"fault_k"`
	E2e        int    `json:"e2e"`
	MinTTL     int    `json:"min_ttl"`
	MaxTTL     int    `json:"max_ttl"`
	DestDist   int    `json:"dest_dist"`
	TimeoutMs  int    `json:"timeout_ms"`
	ISN        uint32 `json:"isn"`
	SynAckUs   int64  `json:"synack_us"`
	HTTP       bool   `json:"http,omitempty"`
	PortInHost bool   `json:"port_in_host,omitempty"` // the target's port is written in the target literal, Port differs
}

func (c *c20Case) request() *Request {
	rq := &Request{HTTP: c.HTTP, SackSrv: true, SackPortInHost: c.PortInHost}
	rq.P = ReqParams{Hostname: "127.33.7.9", Protocol: "tcp", TCPMethod: c.Method, MinTTL: c.MinTTL, MaxTTL: c.MaxTTL, DelayMs: 1, TimeoutMs: c.TimeoutMs, Queries: 1, E2e: c.E2e}
	destKind := "sack"
	rq.Sack = SackCfg{Permit: true, TS: c.Capability == "ok-ts", ClientNxt: c.ISN, ServerISN: 77, SynAckUs: c.SynAckUs}
	switch c.Capability {
	case "no-permit":
		rq.Sack.Permit = false
	case "no-options":
		rq.Sack.Permit, rq.Sack.TS, rq.Sack.Bare = false, false, true
	case "plain-ack", "plain-ack-empty", "plain-ack-ts", "plain-ack-half", "plain-ack-odd":
		destKind = c.Capability
		rq.Sack.TS = c.Capability == "plain-ack-ts"
	case "ok-resyn":
		// a SACK-capable target that retransmits its SYN-ACK while the run is under way: SACK is available
		rq.Sack.TS = c.ISN%2 == 0
		rq.Noise = []NoiseItem{{Anchor: c.MinTTL, Kind: "sack-synack-again", DelayUs: 300}, {Anchor: min(c.MinTTL+1, c.MaxTTL), Kind: "sack-synack-again", DelayUs: 2500}}
	case "closed":
		rq.Sack.NoListen = true
	case "no-synack":
		rq.Sack.NoSynAck = true
	}
	rq.Scripts = []FlowScript{{DestDist: c.DestDist, Default: HopSpec{DelayUs: 2000, DestKind: destKind}}}
	k := c.FaultK
	if k < 1 {
		k = 1
	}
	switch c.FaultKind {
	case "filter1":
		rq.Faults = []Fault{{Kind: "source", Handle: 0, Op: "SetPacketFilter", K: 1, Class: "fatal"}}
	case "filter2":
		rq.Faults = []Fault{{Kind: "source", Handle: 0, Op: "SetPacketFilter", K: 2, Class: "fatal"}}
	case "send":
		rq.Faults = []Fault{{Kind: "sink", Handle: 0, Op: "WriteTo", K: k, Class: "fatal"}}
	case "read":
		rq.Faults = []Fault{{Kind: "source", Handle: 0, Op: "Read", K: k, Class: "fatal"}}
	case "srcfactory":
		rq.Faults = []Fault{{Kind: "sourcefactory", Handle: -1, Op: "New", K: 1, Class: "fatal"}}
	case "sinkfactory":
		rq.Faults = []Fault{{Kind: "sinkfactory", Handle: -1, Op: "New", K: 1, Class: "fatal"}}
	}
	return rq
}

func checkC20(t *testing.T, c *c20Case, rec *Recorder) []Diff {
	rq := c.request()
	o := RunRequest(t, rq)
	var ds []Diff
	add := func(sig, f string, a ...any) { ds = append(ds, Diff{"C20", sig, fmt.Sprintf(f, a...)}) }
	labels := []string{"method:" + c.Method, "capability:" + c.Capability, "fault:" + c.FaultKind}
	if o.Wire != nil && o.Wire.Overrun {
		rec.Case(scenarioKey(c), true, c, append(labels, "other:never-ends")...)
		return []Diff{{"C08", "run-never-ends", "request stopped by the harness watchdog (endless or spinning run)"}, {"C20", "never-ends", fmt.Sprintf("method %q against capability %s never came to an outcome (stopped by the harness watchdog)", c.Method, c.Capability)}}
	}
	ds = append(ds, worldProblems(o.World, "C20")...)
	if o.Panic != "" || o.Deadlock != "" || o.Wire == nil {
		add("crash", "crashed: %s%s", o.Panic, o.Deadlock)
		rec.Case(scenarioKey(c), true, c, labels...)
		return ds
	}
	// classify the flows on the wire: traceroute flows (more than the single e2e probe, or in a handle created by a run)
	synRun, ackRun, synSingle, ackSingle := 0, 0, 0, 0
	span := c.MaxTTL - c.MinTTL + 1
	for _, probes := range sinkProbes(o.Wire) {
		kind := probes[0].Kind
		single := len(probes) == 1 && int(probes[0].TTL) == c.MaxTTL && span > 1
		switch {
		case kind == "tcp-syn" && single:
			synSingle++
		case kind == "tcp-syn":
			synRun++
		case kind == "tcp-ack" && single:
			ackSingle++
		case kind == "tcp-ack":
			ackRun++
		}
	}
	fired := len(o.Wire.FiredList) > 0
	firedOnSack := false
	if fired {
		firedOnSack = c.Method == "sack" || c.Method == "prefer_sack"
	}
	// "ACKs lacking SACK blocks" only shows when a probe actually reaches the target
	isPlain := strings.HasPrefix(c.Capability, "plain-ack")
	plainAckSeen := isPlain && c.DestDist <= c.MaxTTL
	sackAvailable := c.Capability == "ok" || c.Capability == "ok-ts" || c.Capability == "ok-resyn" || (isPlain && !plainAckSeen)
	unavailable := c.Capability == "no-permit" || c.Capability == "no-options" || plainAckSeen || c.Capability == "closed"
	wrapsSentinel := func() bool {
		for _, s := range o.Wire.Fired {
			if errors.Is(o.Err, s) {
				return true
			}
			// over HTTP only the error text survives
			if c.HTTP && o.Err != nil && strings.Contains(o.Err.Error(), s.Error()) {
				return true
			}
		}
		return false
	}
	if att, del := handshakesDelivered(o.Wire); sackAvailable && att > del && !fired {
		// the harness could not show the SYN-ACK to a SACK attempt: nothing to judge
		rec.Case(scenarioKey(c), false, c, append(labels, "handshake-not-delivered(not asserted)")...)
		return ds
	}
	switch c.Method {
	case "", "syn":
		if o.SackAccept != 0 {
			add("syn-connected", "method %q opened %d TCP connection(s) to the target", c.Method, o.SackAccept)
		}
		if ackRun+ackSingle != 0 {
			add("syn-sent-ack-probes", "method %q emitted SACK-style probes", c.Method)
		}
		if !fired {
			if o.Err != nil {
				add("syn-failed", "method %q failed without any injected failure: %v", c.Method, o.Err)
			} else if synRun != 1 && span > 1 {
				add("syn-run-missing", "method %q: %d SYN traceroute flows on the wire, want 1", c.Method, synRun)
			}
		} else if o.Err == nil {
			add("fault-masked", "injected failure fired but the request succeeded")
		}
	case "sack":
		if synRun != 0 {
			add("sack-masked-by-syn", "method sack emitted a SYN traceroute (%d flows): the SACK outcome was masked", synRun)
		}
		switch {
		case firedOnSack:
			if o.Err == nil {
				add("fault-masked", "injected SACK failure (%s) fired but the request succeeded", c.FaultKind)
			} else if !wrapsSentinel() {
				add("cause-lost", "error does not wrap the injected cause: %v", o.Err)
			}
		case sackAvailable:
			if o.Err != nil {
				add("sack-failed", "method sack failed although the target supports SACK and nothing was injected: %v", o.Err)
			} else if ackRun != 1 && span > 1 {
				add("sack-run-missing", "method sack succeeded but %d SACK flows are on the wire", ackRun)
			}
		default:
			if o.Err == nil {
				add("sack-succeeded-unsupported", "method sack succeeded although SACK is not available (%s)", c.Capability)
			}
		}
	case "prefer_sack":
		switch {
		case firedOnSack:
			if o.Err == nil {
				add("fault-masked-by-fallback", "injected SACK failure (%s) fired but the request succeeded (SYN flows: %d)", c.FaultKind, synRun)
			} else if !wrapsSentinel() {
				add("cause-lost", "error does not wrap the injected cause: %v", o.Err)
			}
			if synRun != 0 {
				add("fallback-after-fatal", "a SYN traceroute was started although the SACK attempt failed with an injected (non-capability) error")
			}
		case sackAvailable:
			if o.Err != nil {
				add("prefer-failed", "prefer_sack failed although SACK is available: %v", o.Err)
			} else if ackRun != 1 || synRun != 0 {
				if span > 1 {
					add("prefer-wrong-path", "SACK available: want 1 SACK flow and no SYN flow, got %d and %d", ackRun, synRun)
				}
			}
		case unavailable:
			if o.Err != nil {
				add("no-fallback", "SACK unavailable (%s) but prefer_sack did not fall back to SYN: %v", c.Capability, o.Err)
			} else if synRun != 1 && span > 1 {
				add("fallback-missing", "SACK unavailable (%s): want 1 SYN flow, got %d", c.Capability, synRun)
			}
		default: // no-synack: not one of the "unsupported" situations, must be reported
			if o.Err == nil {
				add("fallback-on-other-failure", "handshake never captured is not 'SACK unsupported', yet the request succeeded (SYN flows %d)", synRun)
			}
			if synRun != 0 {
				add("fallback-on-other-failure", "a SYN traceroute was started after a non-capability SACK failure")
			}
		}
	default:
		if o.Err == nil {
			add("unknown-method-accepted", "unknown method %q executed", c.Method)
		}
	}
	// end-to-end probes use SYN whatever the method
	if ackSingle != 0 {
		add("e2e-not-syn", "%d end-to-end probes used SACK-style packets", ackSingle)
	}
	if o.Err == nil && span > 1 && synSingle != c.E2e && (c.Method == "" || c.Method == "syn" || c.Method == "sack" || c.Method == "prefer_sack") {
		add("e2e-count", "%d single SYN probes at the last TTL on the wire, requested %d end-to-end probes", synSingle, c.E2e)
	}
	nt := (c.Method == "sack" || c.Method == "prefer_sack") && (!sackAvailable || c.FaultKind != "")
	rec.Case(scenarioKey(c), nt, map[string]any{"case": c, "err": fmt.Sprint(o.Err), "syn_flows": synRun, "sack_flows": ackRun, "accepted": o.SackAccept}, labels...)
	return ds
}

var c20Methods = []string{"", "syn", "sack", "prefer_sack", "fin"}
var c20Caps = []string{"ok-ts", "ok", "ok-resyn", "no-permit", "no-options", "plain-ack", "plain-ack-empty", "plain-ack-ts", "plain-ack-half", "plain-ack-odd", "closed", "no-synack"}
var c20Faults = []string{"", "filter1", "filter2", "send", "read", "srcfactory", "sinkfactory"}

func TestC20Table(t *testing.T) {
	rec := NewRecorder("C20", "C20Table", "full table: method {\"\", syn, sack, prefer_sack, unknown} x target capability {SACK-permitted with/without timestamps, the same with the SYN-ACK retransmitted during the run, no SACK-permitted, a SYN-ACK without any option, ACKs lacking SACK blocks (no option / SACK option with zero blocks / timestamp option only / SACK option too short for one block: a lone left edge, three bytes), port closed (real ECONNREFUSED on loopback), handshake never captured} x injected non-capability failure {none, first filter, second filter, send, read, source factory, sink factory} x e2e probes {0, 2 (only without injected failure)} x 2 TTL ranges, through RunTraceroute with a real loopback listener; oracle: policy table over probe kinds on the wire, accepted connections and the error chain; exhaustive over the table; non-trivial = method sack/prefer_sack with a non-happy capability or an injected failure")
	rec.Exhaustive = true
	RunCases(t, rec, func(yield func(*c20Case) bool) {
		for _, m := range c20Methods {
			for _, cap := range c20Caps {
				for _, f := range c20Faults {
					for _, e2e := range []int{0, 2} {
						if e2e > 0 && f != "" {
							continue // handle indices of concurrent e2e probes are scheduler dependent
						}
						for _, r := range [][3]int{{1, 4, 3}, {2, 6, 9}} {
							c := &c20Case{Method: m, Capability: cap, FaultKind: f, FaultK: 1, E2e: e2e, MinTTL: r[0], MaxTTL: r[1], DestDist: r[2], TimeoutMs: 40, ISN: 0xfffffff0, SynAckUs: 300}
							if !yield(c) {
								return
							}
						}
					}
				}
			}
		}
	}, checkC20)
}

func TestC20(t *testing.T) {
	rec := NewRecorder("C20", "C20", "rapid: the same dimensions with drawn TTL ranges, timeouts, ISNs, handshake latencies, fault call indices (k-th send/read), library vs HTTP entry, and the target's port given as the Port parameter or inside the target literal (with a Port parameter that names another, closed port); same oracle")
	RunProp(t, rec, func(rt *rapid.T) *c20Case {
		c := &c20Case{}
		c.Method = oneOf(rt, "method", "", "syn", "sack", "sack", "prefer_sack", "prefer_sack", "prefer_sack", "SACK", "x")
		c.Capability = oneOf(rt, "cap", c20Caps...)
		c.FaultKind = oneOf(rt, "fault", "", "", "filter1", "filter2", "send", "read", "srcfactory", "sinkfactory")
		c.FaultK = rapid.IntRange(1, 4).Draw(rt, "fault_k")
		if c.FaultKind == "" {
			c.E2e = rapid.IntRange(0, 3).Draw(rt, "e2e")
		}
		c.MinTTL = rapid.IntRange(1, 3).Draw(rt, "min")
		c.MaxTTL = c.MinTTL + rapid.IntRange(1, 8).Draw(rt, "span")
		c.DestDist = rapid.IntRange(c.MinTTL, c.MaxTTL+2).Draw(rt, "dest")
		c.TimeoutMs = oneOf(rt, "timeout", 20, 40, 200)
		c.ISN = oneOf(rt, "isn", uint32(0), 1, 0x7fffffff, 0xffffff00, 0xffffffff)
		c.SynAckUs = oneOf(rt, "synack_us", int64(0), 100, 3000)
		c.HTTP = c.MinTTL == 1 && rapid.Bool().Draw(rt, "http")
		c.PortInHost = oneOf(rt, "port_in_host", false, false, true)
		return c
	}, checkC20)
}

// TestC20ConnectTimeout (real clock): "cannot connect" includes a target that silently drops the SYN. A
// connect that blocks in the kernel cannot run on the virtual clock, so this part uses real time: a
// loopback listener with a full accept queue, prefer_sack with a 100 ms handshake timeout. Which timer
// wins inside the dialer varies from attempt to attempt, hence several attempts per case.
func TestC20ConnectTimeout(t *testing.T) {
	attempts := 12
	if tier() == "thorough" {
		attempts = 40
	}
	rec := NewRecorder("C20", "C20ConnectTimeout", fmt.Sprintf("real clock, %d attempts: prefer_sack against a loopback port whose accept queue is full (the kernel drops the SYN, connect times out after the 100 ms handshake timeout); oracle: every attempt falls back to a SYN trace (one SYN flow on the wire, success); non-trivial = the connect really timed out (no connection was accepted)", attempts))
	rec.Assumptions = append(rec.Assumptions, "real time; relies on the Linux behaviour of dropping SYNs when the accept queue is full")
	RunCases(t, rec, func(yield func(*c20Case) bool) {
		for i := 0; i < attempts; i++ {
			c := &c20Case{Method: "prefer_sack", Capability: "drop-syn", MinTTL: 1, MaxTTL: 2, DestDist: 2, TimeoutMs: 100, ISN: uint32(i), SynAckUs: int64(i)}
			if !yield(c) {
				return
			}
		}
	}, func(t *testing.T, c *c20Case, rec *Recorder) []Diff {
		rq := c.request()
		rq.RealTime = true
		rq.Sack.DropSyn = true
		rq.P.DelayMs = 0
		o := RunRequest(t, rq)
		if o.Panic != "" || o.Wire == nil {
			return []Diff{{"C09", "crash", o.Panic}}
		}
		syn := 0
		for _, probes := range sinkProbes(o.Wire) {
			if probes[0].Kind == "tcp-syn" {
				syn++
			}
		}
		var ds []Diff
		if o.Err != nil {
			ds = append(ds, Diff{"C20", "no-fallback", fmt.Sprintf("the target drops the SYN (cannot connect) but prefer_sack did not fall back to SYN: %v", o.Err)})
		} else if syn != 1 {
			ds = append(ds, Diff{"C20", "fallback-missing", fmt.Sprintf("cannot connect: want 1 SYN flow, got %d", syn)})
		}
		rec.CaseEnumerated(o.SackAccept == 0, map[string]any{"attempt": c.ISN, "err": fmt.Sprint(o.Err), "syn_flows": syn}, "capability:drop-syn")
		return ds
	})
}
