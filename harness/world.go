package harness

// World model: what the simulated network does with each probe. Replies are derived from the bytes
// of the probe itself (independent codec), so the model works for every identifier scheme.

import (
	"encoding/binary"
	"fmt"
	"net/netip"
	"time"
)

// FormSpec selects the wire form of an ICMP error from the device-behaviour catalogue.
type FormSpec struct {
	Quote        string `json:"quote,omitempty"`      // "" / min | full | ext | plus
	OuterOpts    int    `json:"outer_opts,omitempty"` // 32-bit words of IPv4 options on the outer header
	OuterTOS     uint8  `json:"outer_tos,omitempty"`
	OuterID      uint16 `json:"outer_id,omitempty"`
	OuterDF      bool   `json:"outer_df,omitempty"`
	QTTL         int    `json:"q_ttl,omitempty"`     // 0 keep, 1 => quoted TTL 1, 2 => quoted TTL 0
	QCsum        string `json:"q_csum,omitempty"`    // "" recompute | stale
	QTOS         int    `json:"q_tos,omitempty"`     // 0 keep, else value
	QUDPCsumZero bool   `json:"q_udp0,omitempty"`    // quoted UDP checksum zeroed
	Kind         string `json:"kind,omitempty"`      // "" ttl-exceeded | unreach-port | unreach-host | unreach-admin
	NAT          bool   `json:"nat,omitempty"`       // quoted source address/port rewritten by a NAT
	ICMPCode     int    `json:"icmp_code,omitempty"` // don't-care perturbation: other code on time-exceeded
}

func (f FormSpec) Canonical() bool {
	return (f.Quote == "" || f.Quote == "min") && f.OuterOpts == 0 && f.QTTL == 0 && f.QCsum == "" && f.QTOS == 0 && !f.QUDPCsumZero && f.Kind == "" && !f.NAT
}

func (f FormSpec) String() string {
	s := f.Quote
	if s == "" {
		s = "min"
	}
	if f.OuterOpts > 0 {
		s += fmt.Sprintf("+opts%d", f.OuterOpts)
	}
	if f.QTTL != 0 {
		s += fmt.Sprintf("+qttl%d", f.QTTL)
	}
	if f.QCsum != "" {
		s += "+stalecsum"
	}
	if f.QTOS != 0 {
		s += "+qtos"
	}
	if f.QUDPCsumZero {
		s += "+udp0"
	}
	if f.Kind != "" {
		s += "+" + f.Kind
	}
	if f.NAT {
		s += "+nat"
	}
	return s
}

// HopSpec is what happens to the probe with one TTL.
type HopSpec struct {
	Silent  bool     `json:"silent,omitempty"`
	DelayUs int64    `json:"delay_us"`
	DupsUs  []int64  `json:"dups_us,omitempty"` // extra identical copies, delay from the probe
	Form    FormSpec `json:"form"`
	// DestKind selects the destination's answer when this TTL reaches the target:
	// icmp: echo-reply; udp: unreach-port | ttl-exceeded; tcp: synack | rst | rstack; sack: sack | ttl-exceeded | plain-ack
	DestKind string `json:"dest_kind,omitempty"`
	// FromOther makes a destination-form reply come from another address (C04)
	FromOther string `json:"from_other,omitempty"`
	// Both: the probe is answered twice, once by a router (time exceeded) and once by the target
	// (per-packet load balancing over unequal paths, a route change, a duplicated probe); BothDelayUs
	// is the delay of the answer the script would not otherwise produce
	Both        bool  `json:"both,omitempty"`
	BothDelayUs int64 `json:"both_delay_us,omitempty"`
	// AckLost (SACK): the probe reaches the target and is recorded by its receiver, but the
	// duplicate ACK is lost; the byte is only reported inside the SACK blocks of later ACKs
	AckLost bool `json:"ack_lost,omitempty"`
	// LinkPad: the reply is delivered the way an Ethernet NIC hands over a short frame: padded with zero bytes
	// to the 46-byte minimum payload (the capture handle returns everything after the Ethernet header)
	LinkPad bool `json:"link_pad,omitempty"`
}

// FlowScript is the behaviour of the network for one flow.
type FlowScript struct {
	DestDist int             `json:"dest_dist"` // lowest TTL that reaches the target, 0 = unreachable
	Default  HopSpec         `json:"default"`
	Hops     map[int]HopSpec `json:"hops,omitempty"`      // by TTL
	AddrKind string          `json:"addr_kind,omitempty"` // "" public | private | mix
	Addrs    map[int]string  `json:"addrs,omitempty"`     // explicit responder address by TTL
}

func (s *FlowScript) Hop(ttl int) HopSpec {
	if h, ok := s.Hops[ttl]; ok {
		return h
	}
	return s.Default
}

// NoiseItem is an extra packet derived from the probe with TTL Anchor.
type NoiseItem struct {
	Anchor  int      `json:"anchor"`   // TTL of the probe whose emission triggers it
	DelayUs int64    `json:"delay_us"` // from that emission
	Kind    string   `json:"kind"`
	Arg     int      `json:"arg,omitempty"`
	Form    FormSpec `json:"form"`
}

// ---- addresses ----

func routerAddr(v6 bool, kind string, flow, ttl int) netip.Addr {
	if v6 {
		var a [16]byte
		switch kind {
		case "private":
			a[0], a[1] = 0xfd, 0x00
		default:
			a[0], a[1], a[2], a[3] = 0x20, 0x01, 0x0d, 0xb8
		}
		a[5] = byte(flow + 1)
		a[15] = byte(ttl)
		a[14] = 0x10
		return netip.AddrFrom16(a)
	}
	switch kind {
	case "private":
		return netip.AddrFrom4([4]byte{10, byte(flow + 1), byte(ttl), 1})
	default:
		return netip.AddrFrom4([4]byte{198, 18, byte(flow + 1), byte(ttl)})
	}
}

// decodeRouterAddr inverts routerAddr for public addresses.
func decodeRouterAddr(a netip.Addr) (flow, ttl int, ok bool) {
	if a.Is4() {
		b := a.As4()
		if b[0] == 198 && b[1] == 18 {
			return int(b[2]) - 1, int(b[3]), true
		}
		if b[0] == 10 {
			return int(b[1]) - 1, int(b[2]), true
		}
		return 0, 0, false
	}
	b := a.As16()
	if (b[0] == 0x20 && b[1] == 0x01 && b[2] == 0x0d && b[3] == 0xb8 || b[0] == 0xfd) && b[14] == 0x10 {
		return int(b[5]) - 1, int(b[15]), true
	}
	return 0, 0, false
}

func poisonAddr(v6 bool, n int) netip.Addr {
	if v6 {
		var a [16]byte
		a[0], a[1], a[2], a[3], a[4], a[5] = 0x20, 0x01, 0x0d, 0xb8, 0xba, 0xd0
		a[14], a[15] = byte(n>>8), byte(n)
		return netip.AddrFrom16(a)
	}
	return netip.AddrFrom4([4]byte{203, 0, 113, byte(1 + n%250)})
}

func isPoison(a netip.Addr) bool {
	if a.Is4() {
		b := a.As4()
		return b[0] == 203 && b[1] == 0 && b[2] == 113
	}
	b := a.As16()
	return b[4] == 0xba && b[5] == 0xd0
}

// ---- reply builders ----

func l4off(raw []byte) int {
	if raw[0]>>4 == 6 {
		return 40
	}
	return int(raw[0]&0xf) * 4
}

// quoteOf applies the form's header rewriting to a copy of the original datagram and cuts it.
func quoteOf(raw []byte, f FormSpec) []byte {
	q := append([]byte(nil), raw...)
	v6 := q[0]>>4 == 6
	off := l4off(q)
	if f.QTTL != 0 {
		v := byte(1)
		if f.QTTL == 2 {
			v = 0
		}
		if v6 {
			q[7] = v
		} else {
			q[8] = v
		}
	}
	if f.QTOS != 0 && !v6 {
		q[1] = byte(f.QTOS)
	}
	if f.QTOS != 0 && v6 {
		// the quoted traffic class was re-marked on the way (DSCP): upper nibble in byte 0, lower in byte 1
		tc := byte(f.QTOS)
		q[0] = 0x60 | tc>>4
		q[1] = tc<<4 | q[1]&0x0f
	}
	if f.NAT {
		if v6 {
			copy(q[8:24], []byte{0x20, 0x01, 0x0d, 0xb8, 0x0a, 0x0a, 0, 0, 0, 0, 0, 0, 0, 0, 0, 0x77})
		} else {
			copy(q[12:16], []byte{100, 64, 7, 7})
		}
		if len(q) >= off+2 && q[offProto(q)] != ProtoICMP && q[offProto(q)] != ProtoICMPv6 {
			binary.BigEndian.PutUint16(q[off:], binary.BigEndian.Uint16(q[off:])^0x5555)
		}
	}
	if f.QUDPCsumZero && len(q) >= off+8 && q[offProto(q)] == ProtoUDP {
		q[off+6], q[off+7] = 0, 0
	}
	if !v6 && f.QCsum != "stale" {
		q[10], q[11] = 0, 0
		binary.BigEndian.PutUint16(q[10:], inetChecksum(q[:off]))
	}
	switch f.Quote {
	case "full", "ext", "ext0", "ext2":
	case "plus":
		if len(q) > off+12 {
			q = q[:off+12]
		}
	default:
		if len(q) > off+8 {
			q = q[:off+8]
		}
	}
	return q
}

func offProto(q []byte) int {
	if q[0]>>4 == 6 {
		return 6
	}
	return 9
}

// icmpError builds an ICMP error (time exceeded / destination unreachable) from src to dst quoting q.
func icmpError(src, dst netip.Addr, f FormSpec, q []byte) []byte {
	v6 := src.Is6()
	m := &ICMPMsg{}
	switch f.Kind {
	case "unreach-port":
		if v6 {
			m.Type, m.Code = 1, 4
		} else {
			m.Type, m.Code = 3, 3
		}
	case "unreach-host":
		if v6 {
			m.Type, m.Code = 1, 3
		} else {
			m.Type, m.Code = 3, 1
		}
	case "unreach-admin":
		if v6 {
			m.Type, m.Code = 1, 1
		} else {
			m.Type, m.Code = 3, 13
		}
	default:
		if v6 {
			m.Type, m.Code = 3, 0
		} else {
			m.Type, m.Code = 11, 0
		}
		if f.ICMPCode != 0 {
			m.Code = uint8(f.ICMPCode)
		}
	}
	body := q
	if f.Quote == "ext" || f.Quote == "ext0" || f.Quote == "ext2" {
		// RFC 4884: original datagram padded to 128 bytes, then an extension structure
		if len(body) > 128 {
			body = body[:128]
		}
		pad := make([]byte, 128)
		copy(pad, body)
		ext := []byte{0x20, 0, 0, 0, 0, 8, 1, 1, 0x00, 0x01, 0x01, 0x01}
		if f.Quote == "ext2" {
			// a two-label MPLS stack followed by an interface-information object (RFC 5837) of a class the tool has no use for
			ext = []byte{0x20, 0, 0, 0, 0, 12, 1, 1, 0x00, 0x01, 0x00, 0x40, 0x00, 0x02, 0x01, 0x3f, 0, 8, 2, 0x0a, 0, 0, 0, 7}
		}
		if f.Quote != "ext0" {
			binary.BigEndian.PutUint16(ext[2:], inetChecksum(ext))
		} // "ext0": checksum field zero = not transmitted (RFC 4884 section 7)
		body = append(pad, ext...)
		if v6 {
			m.Rest[0] = 16 // 64-bit words
		} else {
			m.Rest[1] = 32 // 32-bit words
		}
	}
	m.Body = body
	ip := &IPPacket{V6: v6, Src: src, Dst: dst, TTL: 250, TOS: f.OuterTOS, ID: f.OuterID}
	if f.OuterDF {
		ip.Flags = 2
	}
	if v6 {
		ip.Proto = ProtoICMPv6
	} else {
		ip.Proto = ProtoICMP
		for i := 0; i < f.OuterOpts; i++ {
			if i == 0 {
				ip.Options = append(ip.Options, 0x94, 0x04, 0x00, 0x00) // router alert
			} else {
				ip.Options = append(ip.Options, 1, 1, 1, 1) // NOPs
			}
		}
	}
	ip.Payload = EncodeICMP(m, v6, src, dst)
	return ip.Encode(EncodeOpts{})
}

// echoReply builds the echo reply to an echo request probe.
func echoReply(p *Probe, from netip.Addr, id, seq uint16) []byte {
	v6 := p.IP.V6
	m := &ICMPMsg{Body: p.ICMP.Body}
	if v6 {
		m.Type = 129
	}
	binary.BigEndian.PutUint16(m.Rest[0:], id)
	binary.BigEndian.PutUint16(m.Rest[2:], seq)
	ip := &IPPacket{V6: v6, Src: from, Dst: p.IP.Src, TTL: 60, ID: 0x1234}
	if v6 {
		ip.Proto = ProtoICMPv6
	} else {
		ip.Proto = ProtoICMP
	}
	ip.Payload = EncodeICMP(m, v6, from, p.IP.Src)
	return ip.Encode(EncodeOpts{})
}

// tcpReply builds a TCP segment from (src,sport) to (dst,dport).
func tcpReply(src netip.Addr, sport uint16, dst netip.Addr, dport uint16, seq, ack uint32, flags uint8, opts []byte) []byte {
	s := &TCPSeg{Src: sport, Dst: dport, Seq: seq, Ack: ack, Flags: flags, Window: 65535, Options: opts}
	ip := &IPPacket{V6: src.Is6(), Src: src, Dst: dst, TTL: 60, Proto: ProtoTCP, ID: 0x4321, Flags: 2}
	ip.Payload = EncodeTCP(s, src, dst)
	return ip.Encode(EncodeOpts{})
}

func us(v int64) time.Duration { return time.Duration(v) * time.Microsecond }
