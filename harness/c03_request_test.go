//go:build verif

package harness

import (
	"fmt"
	"testing"

	"pgregory.net/rapid"
)

// TestC03Request: the shape of the hop lists a whole request returns, through the library and through the HTTP
// handler (whose numbers arrive as text: plain, zero-padded, with an explicit sign): one entry per TTL from 1 up to
// the requested last TTL, or up to the lowest TTL the destination answers.
func TestC03Request(t *testing.T) {
	rec := NewRecorder("C03", "C03Request", "rapid: RunTraceroute and the HTTP handler (last TTL written plain, zero-padded or with a plus sign) for every protocol, last TTL 1..40 incl. 8, 9, 10, 16, 32, over worlds whose destination is silent or answers at a generated distance; oracle: every run of the result has exactly one entry per TTL 1..min(last TTL, destination distance), consecutive, destination flag only on the last entry; non-trivial = HTTP with a re-spelt number, or a destination inside the range")
	RunProp(t, rec, func(rt *rapid.T) *Request {
		rq := &Request{HTTP: rapid.Bool().Draw(rt, "http")}
		p := &rq.P
		p.Protocol = oneOf(rt, "proto", "udp", "icmp", "tcp")
		p.Hostname = "93.184.216.34"
		if p.Protocol != "tcp" && rapid.Bool().Draw(rt, "v6") {
			p.Hostname = "2001:db8:ffff::1"
		}
		p.Port = 443
		p.MinTTL = 1
		p.MaxTTL = oneOf(rt, "max", 1, 2, 7, 8, 9, 10, 11, 16, 17, 32, 40, rapid.IntRange(1, 40).Draw(rt, "max_r"))
		p.TimeoutMs = 30
		p.DelayMs = 1
		if rq.HTTP {
			p.DelayMs = 50
			p.NumStyle = oneOf(rt, "num_style", "", "zeros", "zeros", "plus")
		}
		p.Queries = rapid.IntRange(1, 2).Draw(rt, "queries")
		p.E2e = 0
		dest := oneOf(rt, "dest", 0, 0, p.MaxTTL, p.MaxTTL+1, rapid.IntRange(1, p.MaxTTL).Draw(rt, "dest_r"))
		rq.Scripts = []FlowScript{{DestDist: dest, Default: HopSpec{DelayUs: 2000}}}
		if oneOf(rt, "all_silent", false, true) {
			rq.Scripts[0].Default.Silent = true
			if dest > 0 && dest <= p.MaxTTL {
				rq.Scripts[0].Hops = map[int]HopSpec{}
				for ttl := dest; ttl <= p.MaxTTL; ttl++ {
					rq.Scripts[0].Hops[ttl] = HopSpec{DelayUs: 2000}
				}
			}
		}
		return rq
	}, func(t *testing.T, rq *Request, rec *Recorder) []Diff {
		o := RunRequest(t, rq)
		p := rq.P
		labels := []string{"protocol:" + p.Protocol, fmt.Sprintf("http:%v", rq.HTTP), "num_style:" + p.NumStyle}
		if o.Panic != "" || o.Deadlock != "" || o.Wire == nil {
			rec.Case(scenarioKey(rq), false, nil, append(labels, "other:crash")...)
			return []Diff{{"C09", "crash", o.Panic + o.Deadlock}}
		}
		res, err := o.Result()
		if err != nil || res == nil {
			rec.Case(scenarioKey(rq), false, nil, append(labels, "other:failed")...)
			return []Diff{{"C09", "run-error", fmt.Sprint(err)}}
		}
		var ds []Diff
		add := func(sig, f string, a ...any) { ds = append(ds, Diff{"C03", sig, fmt.Sprintf(f, a...)}) }
		dest := rq.Scripts[0].DestDist
		want := p.MaxTTL
		if dest > 0 && dest < want {
			want = dest
		}
		if len(res.Traceroute.Runs) != p.Queries {
			add("run-count", "%d runs in the result, %d requested", len(res.Traceroute.Runs), p.Queries)
		}
		for i, run := range res.Traceroute.Runs {
			if len(run.Hops) != want {
				add("list-length", "run %d has %d entries; last TTL %d (written %q), destination %s: one entry per TTL 1..%d is due", i, len(run.Hops), p.MaxTTL, p.NumStyle, map[bool]string{true: fmt.Sprintf("answers from TTL %d", dest), false: "never answers"}[dest > 0 && dest <= p.MaxTTL], want)
				continue
			}
			for j, h := range run.Hops {
				if h == nil || h.TTL != j+1 {
					add("ttl-sequence", "run %d entry %d has TTL %v", i, j, h)
					break
				}
				if !rq.HTTP && h.IsDest && j != len(run.Hops)-1 {
					add("dest-not-last", "run %d: entry TTL %d is marked destination but is not the last of %d", i, h.TTL, len(run.Hops))
				}
			}
			// (the destination flag is not part of the JSON document)
			if !rq.HTTP && dest > 0 && dest <= p.MaxTTL && !run.Hops[len(run.Hops)-1].IsDest {
				add("dest-missing", "run %d: the destination answers from TTL %d but the last entry (TTL %d) is not marked", i, dest, len(run.Hops))
			}
		}
		rec.Case(scenarioKey(rq), (rq.HTTP && p.NumStyle != "") || (dest > 0 && dest <= p.MaxTTL), rq, labels...)
		return ds
	})
}
