package harness

// Histories of two runs in one process: a run that fails after replies were recorded, then an ordinary run.
// Whatever the first run leaves behind in the process (pooled buffers, cached parsers, allocator state) must not
// show in the second run, which is judged exactly like a run on its own.

import (
	"fmt"
	"testing"

	"pgregory.net/rapid"
)

type historyCase struct {
	Prelude *Scenario `json:"prelude"`
	Main    *Scenario `json:"main"`
}

func genHistory(rt *rapid.T, mainOpts GenOpts) *historyCase {
	main := GenScenario(rt, mainOpts)
	pre := GenScenario(rt, GenOpts{NoSilent: true, SmallTimes: true, MaxSpan: 40})
	// the same TTL range, so that what the first run recorded lines up with what the second leaves unanswered
	pre.MinTTL, pre.MaxTTL = main.MinTTL, main.MaxTTL
	pre.Script.DestDist = oneOf(rt, "pre_dest", 0, 0, main.MaxTTL, (main.MinTTL+main.MaxTTL+1)/2)
	pre.Script.Default.Silent = false
	pre.Script.Hops = nil
	pre.Noise, pre.Reuse, pre.ReuseFrom, pre.ReusePort = nil, 0, "", 0
	span := pre.MaxTTL - pre.MinTTL + 1
	switch oneOf(rt, "pre_fail", "write", "write", "read", "cancel") {
	case "read":
		pre.Faults = []Fault{{Kind: "source", Handle: 0, Op: "Read", K: rapid.IntRange(span+1, 3*span+4).Draw(rt, "pre_read_k"), Class: "fatal"}}
	case "cancel":
		if pre.Variant == "icmp4" || pre.Variant == "icmp6" || pre.Variant == "sack" {
			pre.CancelAtUs = int64(rapid.IntRange(1, span).Draw(rt, "pre_cancel_step"))*int64(pre.DelayMs)*1000 + pre.Script.Default.DelayUs + 1500
			break
		}
		fallthrough
	default:
		pre.Faults = []Fault{{Kind: "sink", Handle: 0, Op: "WriteTo", K: rapid.IntRange((span+3)/2, span+1).Draw(rt, "pre_write_k"), Class: "fatal"}}
	}
	return &historyCase{Prelude: pre, Main: main}
}

func checkHistory(judge func(*testing.T, *Scenario, *Recorder) []Diff) func(*testing.T, *historyCase, *Recorder) []Diff {
	return func(t *testing.T, c *historyCase, rec *Recorder) []Diff {
		o := RunScenario(t, c.Prelude)
		failedAfterReplies := false
		if o.Wire != nil && (o.Err != nil || o.Run == nil) {
			for _, e := range o.Wire.Reads(0) {
				if e.Tag.Class == "genuine" {
					failedAfterReplies = true
					break
				}
			}
		}
		rec.Label(fmt.Sprintf("prelude-failed-after-replies:%v", failedAfterReplies))
		return judge(t, c.Main, rec)
	}
}

func TestC01AfterFailedRun(t *testing.T) {
	rec := NewRecorder("C01", "C01AfterFailedRun", "rapid histories of two runs in one process: first a run over a world in which every hop answers, made to fail part-way (k-th send fails, k-th read fails, or the context is cancelled) after replies were recorded; then a generated scenario (silent hops, duplicates, 0..6 must-reject packets) over the same TTL range, judged exactly like a run on its own (reference, poison, noisy-vs-clean differential); label prelude-failed-after-replies counts the histories in which the first run really failed after reading genuine replies; non-trivial as in C01")
	RunProp(t, rec, func(rt *rapid.T) *historyCase {
		return genHistory(rt, GenOpts{Noise: 6, Dups: true, MaxSpan: 40})
	}, checkHistory(checkC01))
}

func TestC03AfterFailedRun(t *testing.T) {
	rec := NewRecorder("C03", "C03AfterFailedRun", "rapid histories of two runs in one process: a run that fails part-way after replies (possibly the destination's) were recorded, then a generated scenario over the same TTL range judged like a run on its own (shape predicate, length against the reference); non-trivial as in C03Protocol")
	RunProp(t, rec, func(rt *rapid.T) *historyCase {
		return genHistory(rt, GenOpts{Dups: true, MaxSpan: 40, OwnWindow: true})
	}, checkHistory(checkC03Protocol))
}

// The same histories judged for the other per-hop properties: an entry left behind by the failed run would hide a
// genuine reply of the second run (C02), carry a destination flag (C04) or a round-trip time (C05) of its own.
func TestC02AfterFailedRun(t *testing.T) {
	rec := NewRecorder("C02", "C02AfterFailedRun", "rapid histories of two runs in one process (a run that fails part-way after replies were recorded, then a generated scenario with non-canonical reply forms over the same TTL range), the second judged like a run on its own: every genuine reply read in its window shows as a hop; non-trivial as in C02")
	RunProp(t, rec, func(rt *rapid.T) *historyCase {
		return genHistory(rt, GenOpts{Forms: true, Dups: true, MaxSpan: 40, OwnWindow: true})
	}, checkHistory(checkC02))
}

func TestC04AfterFailedRun(t *testing.T) {
	rec := NewRecorder("C04", "C04AfterFailedRun", "rapid histories of two runs in one process (a run that fails part-way after replies, possibly the destination's, were recorded, then a generated scenario with wrong-place destination-form replies over the same TTL range), the second judged like a run on its own; non-trivial as in C04")
	RunProp(t, rec, func(rt *rapid.T) *historyCase {
		return genHistory(rt, GenOpts{Noise: 4, Forms: true, WrongPlace: true, Dups: true, MaxSpan: 30, OwnWindow: true})
	}, checkHistory(checkC04))
}

func TestC05AfterFailedRun(t *testing.T) {
	rec := NewRecorder("C05", "C05AfterFailedRun", "rapid histories of two runs in one process (a run that fails part-way after replies were recorded and timed, then a generated scenario with other delays over the same TTL range), the second judged like a run on its own: every RTT is arrival minus send of the same probe of this run; non-trivial as in C05")
	RunProp(t, rec, func(rt *rapid.T) *historyCase {
		c := genHistory(rt, GenOpts{Dups: true, MaxSpan: 30, BigDelay: true})
		// as in TestC05: the serial engine does not listen between windows
		if c.Main.Serial() && c.Main.Delay() > c.Main.Poll() {
			clampOwnWindow(c.Main)
		}
		return c
	}, checkHistory(checkC05))
}
