package harness

import (
	"encoding/json"
	"fmt"
	"testing"
)

func TestSmoke(t *testing.T) {
	for _, v := range []string{"icmp4", "icmp6", "udp4", "udp6", "tcp", "tcp-paris", "sack"} {
		sc := &Scenario{Variant: v, MinTTL: 1, MaxTTL: 8, TimeoutMs: 1000, DelayMs: 50, PollMs: 100, Target: "93.184.216.34", Port: 443,
			Script: FlowScript{DestDist: 5, Default: HopSpec{DelayUs: 20000}},
			Sack:   SackCfg{Permit: true, TS: true, ClientNxt: 0xfffffffe, ServerISN: 7, SynAckUs: 1000},
		}
		if sc.IsV6() {
			sc.Target = "2001:db8:ffff::1"
		}
		if v == "sack" {
			sc.Target = "127.5.6.7"
			sc.Port = 0
		}
		o := RunScenario(t, sc)
		fmt.Printf("== %s err=%v panic=%q deadlock=%q elapsed=%v sends=%d reads=%d\n", v, o.Err, o.Panic, o.Deadlock, o.Elapsed, len(o.Wire.Sends(0)), len(o.Wire.Reads(0)))
		if o.Run != nil {
			b, _ := json.Marshal(o.Run)
			fmt.Println(string(b))
			ds, _ := CheckRun(sc, o)
			ds = append(ds, CheckEmission(sc, o)...)
			for _, d := range ds {
				fmt.Println("  DIFF", d)
			}
		}
		fmt.Println("  handles:", o.Wire.HandleProblems(), "gor", o.GorBefore, o.GorAfter, "fd", o.FdBefore, o.FdAfter)
	}
}
