package harness

// C19: parameters are honoured exactly or rejected, never wrapped; no crash.

import (
	"fmt"
	"net/netip"
	"strings"
	"testing"

	"pgregory.net/rapid"
)

var ttlBoundary = []int{-300, -255, -1, 0, 1, 2, 29, 30, 254, 255, 256, 257, 258, 300, 511, 512, 65535, 65536, 65537, 65791, 1<<31 - 1}
var portBoundary = []int{-1, 0, 1, 80, 443, 33434, 65535, 65536, 70000, 131072 + 80}

func genC19(rt *rapid.T) *Request {
	rq := &Request{}
	p := &rq.P
	p.Protocol = oneOf(rt, "protocol", "udp", "udp", "tcp", "tcp", "icmp", "icmp", "UDP", "", "sctp", "Icmp", "tcp ")
	p.TCPMethod = oneOf(rt, "method", "", "syn", "syn", "sack", "prefer_sack", "syn_socket", "fin")
	// other spellings of a method are not that method (the accepted set is the exact lower-case names)
	switch oneOf(rt, "method_spelling", "", "", "", "", "upper", "title", "lead-space", "trail-space") {
	case "upper":
		p.TCPMethod = strings.ToUpper(p.TCPMethod)
	case "title":
		if p.TCPMethod != "" {
			p.TCPMethod = strings.ToUpper(p.TCPMethod[:1]) + p.TCPMethod[1:]
		}
	case "lead-space":
		if p.TCPMethod != "" {
			p.TCPMethod = " " + p.TCPMethod
		}
	case "trail-space":
		if p.TCPMethod != "" {
			p.TCPMethod += " "
		}
	}
	if rapid.IntRange(0, 9).Draw(rt, "ttl_valid") < 6 {
		p.MinTTL = oneOf(rt, "min_ok", 1, 1, 1, 2, 30, 254, 255)
		p.MaxTTL = oneOf(rt, "max_ok", 1, 2, 3, 30, 254, 255, 255)
	} else {
		p.MinTTL = oneOf(rt, "min_any", ttlBoundary...)
		p.MaxTTL = oneOf(rt, "max_any", ttlBoundary...)
	}
	p.Port = oneOf(rt, "port", portBoundary...)
	p.Queries = rapid.IntRange(0, 3).Draw(rt, "queries")
	p.E2e = rapid.IntRange(0, 3).Draw(rt, "e2e")
	p.TimeoutMs = oneOf(rt, "timeout_ms", 5, 20)
	p.DelayMs = oneOf(rt, "delay_ms", 0, 1)
	p.Paris = rapid.Bool().Draw(rt, "paris")
	p.WantV6 = rapid.Bool().Draw(rt, "want_v6")
	rq.HTTP = rapid.Bool().Draw(rt, "http")
	if rq.HTTP {
		p.NumStyle = oneOf(rt, "num_style", "", "", "zeros", "plus")
		p.BoolStyle = oneOf(rt, "bool_style", "", "", "digit", "letter", "LETTER", "UPPER", "Title")
		p.Repeat = oneOf(rt, "repeat", []string(nil), nil, nil, []string{"max-ttl", "port"}, []string{"traceroute-queries", "e2e-queries", "protocol", "tcp-method", "ipv6"})
	}
	form := oneOf(rt, "target_form", "v4", "v4", "v6", "v6br", "v4port", "v6brport", "name", "nameport")
	sackLike := strings.TrimSpace(strings.ToLower(p.Protocol)) == "tcp" && (p.TCPMethod == "sack" || p.TCPMethod == "prefer_sack")
	if sackLike && form != "v6" && form != "v6br" && form != "v6brport" {
		// SACK really connects: only a loopback listener owned by the harness is reachable
		p.Hostname = fmt.Sprintf("127.%d.%d.%d", rapid.IntRange(1, 250).Draw(rt, "l1"), rapid.IntRange(0, 250).Draw(rt, "l2"), rapid.IntRange(2, 250).Draw(rt, "l3"))
		rq.SackSrv = true
		rq.Sack = SackCfg{Permit: true, TS: rapid.Bool().Draw(rt, "ts"), ClientNxt: oneOf(rt, "isn", uint32(1), 0xffffff00, 0x7fffffff), ServerISN: 9, SynAckUs: 100}
	} else {
		switch form {
		case "v4":
			p.Hostname = "93.184.216.34"
		case "v6":
			p.Hostname = "2001:db8:ffff::1"
		case "v6br":
			p.Hostname = "[2001:db8:ffff::1]"
		case "name", "nameport":
			// a host name with A and / or AAAA records (the resolver's answer order is its own business: the family
			// that was asked for decides)
			rq.Hosts = map[string][]string{
				"dual.verif.test":  {"2001:db8:ffff::1", "93.184.216.34"},
				"dual4.verif.test": {"93.184.216.34", "203.0.113.9", "2001:db8:ffff::1"},
				"only4.verif.test": {"8.8.8.8"},
				"only6.verif.test": {"2606:4700:4700::1111"},
				"empty.verif.test": {},
			}
			p.Hostname = oneOf(rt, "host_name", "dual.verif.test", "dual.verif.test", "dual4.verif.test", "only4.verif.test", "only6.verif.test", "empty.verif.test", "nosuch.verif.test")
			if form == "nameport" {
				p.Hostname = fmt.Sprintf("%s:%d", p.Hostname, oneOf(rt, "hostport_n", 1, 8080, 65535))
			}
		case "v4port":
			p.Hostname = fmt.Sprintf("93.184.216.34:%d", oneOf(rt, "hostport", 0, 1, 8080, 65535, 65536, 70000))
		case "v6brport":
			p.Hostname = fmt.Sprintf("[2001:db8:ffff::1]:%d", oneOf(rt, "hostport6", 0, 1, 8080, 65535, 65536, 131152))
		}
	}
	rq.Scripts = []FlowScript{{Default: HopSpec{Silent: true}}}
	rq.EchoBase = oneOf(rt, "echo_base", uint32(0), 0xfffe)
	rq.PktIDBase = oneOf(rt, "pktid_base", uint32(0), 0xfff0)
	// a third of the requests are not the first the process serves for this target text: an earlier, valid request
	// named the same target with another port, protocol or family wish (nothing of it may carry over)
	if !rq.SackSrv && oneOf(rt, "history", false, false, true) {
		n := rapid.IntRange(1, 2).Draw(rt, "n_before")
		for i := 0; i < n; i++ {
			bp := ReqParams{Hostname: p.Hostname, Protocol: oneOf(rt, fmt.Sprintf("b%d_proto", i), "udp", "icmp", "tcp"), TCPMethod: "syn",
				Port: oneOf(rt, fmt.Sprintf("b%d_port", i), 80, 443, 33434, 1, 65535), MinTTL: 1, MaxTTL: 2, TimeoutMs: 5, DelayMs: 1, Queries: 1,
				WantV6: oneOf(rt, fmt.Sprintf("b%d_v6", i), p.WantV6, p.WantV6, !p.WantV6)}
			rq.Before = append(rq.Before, bp)
		}
	}
	return rq
}

func hostPortOf(h string) (addr string, port int, hasPort bool) {
	if strings.HasPrefix(h, "[") {
		if i := strings.Index(h, "]:"); i >= 0 {
			fmt.Sscanf(h[i+2:], "%d", &port)
			return h[1:i], port, true
		}
		return strings.Trim(h, "[]"), 0, false
	}
	if strings.Count(h, ":") == 1 {
		i := strings.Index(h, ":")
		fmt.Sscanf(h[i+1:], "%d", &port)
		return h[:i], port, true
	}
	return h, 0, false
}

func checkC19(t *testing.T, rq *Request, rec *Recorder) []Diff {
	o := RunRequest(t, rq)
	p := rq.P
	labels := []string{"protocol:" + p.Protocol, fmt.Sprintf("http:%v", rq.HTTP)}
	var ds []Diff
	add := func(sig, f string, a ...any) { ds = append(ds, Diff{"C19", sig, fmt.Sprintf(f, a...)}) }
	minTTL, maxTTL := p.MinTTL, p.MaxTTL
	if rq.HTTP {
		minTTL = 1
	}
	near := func(v int, bs ...int) bool {
		for _, b := range bs {
			if v >= b-2 && v <= b+2 {
				return true
			}
		}
		return false
	}
	nt := near(minTTL, 0, 1, 255, 256, 512, 65536) || near(maxTTL, 0, 1, 255, 256, 512, 65536) || near(p.Port, 0, 1, 65535, 65536)
	if o.Panic != "" || o.Deadlock != "" {
		add("crash", "parameters %+v crashed or wedged the process: %s%s", p, o.Panic, o.Deadlock)
		rec.Case(scenarioKey(rq), true, rq, append(labels, "crash")...)
		return ds
	}
	addrStr, hostPort, hasPort := hostPortOf(p.Hostname)
	effPort := o.Port
	if effPort == 0 {
		effPort = 33434
	}
	if hasPort {
		effPort = hostPort
	}
	protoKnown := p.Protocol == "udp" || p.Protocol == "tcp" || p.Protocol == "icmp"
	methodKnown := p.TCPMethod == "" || p.TCPMethod == "syn" || p.TCPMethod == "sack" || p.TCPMethod == "prefer_sack" || p.TCPMethod == "syn_socket"
	var reasons []string
	// the first TTL is only used by traceroute runs (an end-to-end probe is a single probe at the last TTL)
	if (minTTL < 1 || minTTL > 255) && p.Queries > 0 {
		reasons = append(reasons, fmt.Sprintf("first TTL %d not in 1..255", minTTL))
	}
	if maxTTL < 1 || maxTTL > 255 {
		reasons = append(reasons, fmt.Sprintf("last TTL %d not in 1..255", maxTTL))
	}
	if !protoKnown {
		reasons = append(reasons, fmt.Sprintf("unknown protocol %q", p.Protocol))
	}
	if p.Protocol == "tcp" && !methodKnown {
		reasons = append(reasons, fmt.Sprintf("unknown TCP method %q", p.TCPMethod))
	}
	if (p.Protocol == "udp" || p.Protocol == "tcp") && (effPort < 1 || effPort > 65535) {
		reasons = append(reasons, fmt.Sprintf("port %d not in 1..65535", effPort))
	}
	nRuns := p.Queries + p.E2e
	if o.Wire != nil && o.Wire.Overrun {
		add("never-ends", "request was still sending/reading after %v of virtual time (stopped by the harness watchdog): params %+v", o.Wire.MaxVirtual, p)
	}
	if o.Err != nil {
		// a rejected (or failed) request may have emitted part of the range, but never a TTL outside it or a TTL twice
		if o.Wire != nil {
			for h, probes := range sinkProbes(o.Wire) {
				seen := map[int]int{}
				for _, pr := range probes {
					seen[int(pr.TTL)]++
				}
				single := len(seen) == 1 && seen[maxTTL] == 1
				for ttl, n := range seen {
					if (ttl < minTTL || ttl > maxTTL) && !single {
						add("ttl-outside-range", "failed request: sink %d probed TTL %d outside the requested %d..%d (err: %v)", h, ttl, minTTL, maxTTL, o.Err)
						break
					}
					if n != 1 {
						add("ttl-repeated", "failed request: sink %d probed TTL %d %d times", h, ttl, n)
						break
					}
				}
			}
		}
		labels = append(labels, "outcome:rejected")
		rec.Case(scenarioKey(rq), nt, map[string]any{"request": rq, "err": fmt.Sprint(o.Err)}, labels...)
		return ds
	}
	labels = append(labels, "outcome:executed")
	if len(reasons) > 0 && nRuns > 0 {
		add("accepted-unrepresentable", "request executed although %s (params %+v)", strings.Join(reasons, "; "), p)
	}
	// executed: the wire must show exactly the requested range, endpoint and protocol
	want, _ := netip.ParseAddr(addrStr)
	var wantAny []netip.Addr // a target name: any of its addresses of the requested family
	if addrs, isName := rq.Hosts[addrStr]; isName {
		for _, a := range addrs {
			if x := netip.MustParseAddr(a); x.Is6() == p.WantV6 {
				wantAny = append(wantAny, x)
			}
		}
		if len(wantAny) == 0 && nRuns > 0 {
			add("accepted-unrepresentable", "request executed although the name %s has no %s address (it has %v)", addrStr, map[bool]string{true: "IPv6", false: "IPv4"}[p.WantV6], addrs)
		}
	}
	full, single := 0, 0
	outsideReported := false
	for h, probes := range sinkProbes(o.Wire) {
		seen := map[int]int{}
		for _, pr := range probes {
			seen[int(pr.TTL)]++
			if wantAny != nil {
				ok := false
				for _, x := range wantAny {
					ok = ok || pr.IP.Dst == x
				}
				if !ok {
					add("wrong-address", "sink %d probe to %s; the target name %s resolves to %v for the requested family (IPv6=%v)", h, pr.IP.Dst, addrStr, wantAny, p.WantV6)
				}
			} else if pr.IP.Dst != want.Unmap() {
				add("wrong-address", "sink %d probe to %s, requested %s", h, pr.IP.Dst, addrStr)
			}
			switch p.Protocol {
			case "udp":
				if pr.Kind != "udp" {
					add("wrong-protocol", "sink %d sent %s for protocol udp", h, pr.Kind)
				}
			case "icmp":
				if pr.Kind != "icmp-echo" {
					add("wrong-protocol", "sink %d sent %s for protocol icmp", h, pr.Kind)
				}
			case "tcp":
				if pr.Kind != "tcp-syn" && pr.Kind != "tcp-ack" {
					add("wrong-protocol", "sink %d sent %s for protocol tcp", h, pr.Kind)
				}
			}
			if pr.Kind != "icmp-echo" && int(pr.DPort) != effPort {
				add("wrong-port", "sink %d probe to port %d, requested %d", h, pr.DPort, effPort)
			}
		}
		isFull, isSingle := len(seen) == maxTTL-minTTL+1, len(seen) == 1 && seen[maxTTL] == 1
		for ttl, n := range seen {
			// an end-to-end probe is by definition one probe at the last TTL, whatever the first TTL is
			if (ttl < minTTL || ttl > maxTTL) && !isSingle {
				if isFull || !outsideReported {
					add("ttl-outside-range", "sink %d probed TTL %d outside the requested %d..%d", h, ttl, minTTL, maxTTL)
					outsideReported = true
				}
				isFull = false
			}
			if n != 1 {
				add("ttl-repeated", "sink %d probed TTL %d %d times", h, ttl, n)
			}
		}
		switch {
		case isFull && (minTTL != maxTTL):
			full++
			if p.Protocol == "tcp" {
				wantKind := "tcp-syn"
				if p.TCPMethod == "sack" || p.TCPMethod == "prefer_sack" {
					wantKind = "tcp-ack"
				}
				if probes[0].Kind != wantKind {
					if att, del := handshakesDelivered(o.Wire); p.TCPMethod == "prefer_sack" && att > del {
						labels = append(labels, "handshake-not-delivered(not asserted)")
					} else {
						add("wrong-method", "traceroute run used %s probes for method %q", probes[0].Kind, p.TCPMethod)
					}
				}
			}
		case isSingle:
			single++
		default:
			if len(reasons) == 0 {
				add("range-not-covered", "sink %d probed %d distinct TTLs %v, requested range %d..%d (the world is silent, so every TTL must be probed)", h, len(seen), keysOf(seen), minTTL, maxTTL)
			}
		}
	}
	if len(reasons) == 0 {
		if minTTL == maxTTL {
			if single != nRuns {
				add("run-count", "%d single-TTL flows on the wire, requested %d runs + %d e2e probes", single, p.Queries, p.E2e)
			}
		} else if full != p.Queries || single != p.E2e {
			add("run-count", "%d full-range and %d single-probe flows on the wire, requested %d runs + %d e2e probes", full, single, p.Queries, p.E2e)
		}
		labels = append(labels, "valid-executed")
	}
	rec.Case(scenarioKey(rq), nt, map[string]any{"request": rq, "flows_full": full, "flows_single": single}, labels...)
	return ds
}

func keysOf(m map[int]int) []int {
	var out []int
	for k := range m {
		out = append(out, k)
	}
	if len(out) > 12 {
		out = out[:12]
	}
	return out
}

func TestC19(t *testing.T) {
	rec := NewRecorder("C19", "C19", "rapid: parameter sets through RunTraceroute and the HTTP handler over a silent simulated world: first/last TTL from {-300..-1, 0, 1, 2, 29, 30, 254..258, 300, 511, 512, 65535..65537, 65791, 2^31-1}, ports {-1, 0, 1, 80, 443, 33434, 65535, 65536, 70000, 131152}, protocol and method strings (valid, wrong case, empty, unknown), target literals (IPv4, IPv6, bracketed, with/without port), 0..3 runs + 0..3 e2e probes; oracle: error, or the ledger shows exactly one probe per TTL of the requested range per run (one at the last TTL per e2e probe), all to the requested address/port/protocol/method; unrepresentable values must be rejected; no crash; non-trivial = a TTL bound or port within 2 of a representability boundary")
	RunProp(t, rec, genC19, checkC19)
}

// TestC19Extremes: every variant with the extreme ranges, deterministically.
func TestC19Extremes(t *testing.T) {
	rec := NewRecorder("C19", "C19Extremes", "enumeration: protocol/method in {udp, icmp, tcp syn, tcp paris, tcp sack, tcp prefer_sack} x address family x (first,last) in {(1,1),(1,255),(255,255),(254,255),(1,256),(0,30),(257,300),(1,300),(-255,3)} x library/HTTP; exhaustive over that product")
	rec.Exhaustive = true
	RunCases(t, rec, func(yield func(*Request) bool) {
		type pm struct{ proto, method string }
		for _, x := range []pm{{"udp", ""}, {"icmp", ""}, {"tcp", "syn"}, {"tcp", ""}, {"tcp", "sack"}, {"tcp", "prefer_sack"}} {
			for _, v6 := range []bool{false, true} {
				for _, r := range [][2]int{{1, 1}, {1, 255}, {255, 255}, {254, 255}, {1, 256}, {0, 30}, {257, 300}, {1, 300}, {-255, 3}, {1, 511}, {1, 65537}} {
					for _, http := range []bool{false, true} {
						for _, paris := range []bool{false, true} {
							if paris && (x.proto != "tcp" || x.method == "sack" || x.method == "prefer_sack" || http) {
								continue
							}
							rq := &Request{HTTP: http, Scripts: []FlowScript{{Default: HopSpec{Silent: true}}}}
							rq.P = ReqParams{Protocol: x.proto, TCPMethod: x.method, MinTTL: r[0], MaxTTL: r[1], Port: 443, Queries: 1, E2e: 1, TimeoutMs: 5, DelayMs: 0, Paris: paris, Hostname: "93.184.216.34"}
							if v6 {
								rq.P.Hostname = "2001:db8:ffff::1"
							}
							if x.method == "sack" || x.method == "prefer_sack" {
								if v6 {
									continue
								}
								rq.P.Hostname = "127.44.3.2"
								rq.SackSrv = true
								rq.Sack = SackCfg{Permit: true, TS: true, ClientNxt: 0xffffff80, ServerISN: 3, SynAckUs: 50}
							}
							if !yield(rq) {
								return
							}
						}
					}
				}
			}
		}
	}, checkC19)
}

// respell writes a parameter value the way users do: another letter case, surrounding whitespace.
func respell(v, how string) string {
	if v == "" {
		return v
	}
	switch how {
	case "upper":
		return strings.ToUpper(v)
	case "title":
		return strings.ToUpper(v[:1]) + v[1:]
	case "lead-space":
		return " " + v
	case "trail-space":
		return v + " "
	}
	return v
}

// TestC19Spellings: the accepted protocol and method names are the exact lower-case ones; any other spelling is
// either rejected or, if a site normalises it, executed as what it normalises to -- by every site. A request
// must never be executed as something else than what one of its consumers rejected.
func TestC19Spellings(t *testing.T) {
	rec := NewRecorder("C19", "C19Spellings", "enumeration: protocol in {udp, tcp, icmp} and TCP method in {\"\", syn, sack, prefer_sack, syn_socket, fin}, each spelled exactly / upper case / capitalised / with a leading / a trailing blank, x (runs, e2e probes) in {(1,0),(0,1),(1,1),(0,0)} x library/HTTP, all other parameters plain; oracle of TestC19 (a spelling that is not the exact name is an unknown name: rejected, or nothing of it executed); exhaustive over that product")
	rec.Exhaustive = true
	RunCases(t, rec, func(yield func(*Request) bool) {
		hows := []string{"", "upper", "title", "lead-space", "trail-space"}
		type pm struct{ proto, method string }
		var pms []pm
		for _, pr := range []string{"udp", "tcp", "icmp"} {
			for _, h := range hows {
				pms = append(pms, pm{respell(pr, h), ""})
			}
		}
		for _, m := range []string{"syn", "sack", "prefer_sack", "syn_socket", "fin"} {
			for _, h := range hows {
				pms = append(pms, pm{"tcp", respell(m, h)})
			}
		}
		for _, x := range pms {
			for _, qe := range [][2]int{{1, 0}, {0, 1}, {1, 1}, {0, 0}} {
				for _, http := range []bool{false, true} {
					rq := &Request{HTTP: http, Scripts: []FlowScript{{Default: HopSpec{Silent: true}}}}
					rq.P = ReqParams{Protocol: x.proto, TCPMethod: x.method, MinTTL: 1, MaxTTL: 2, Port: 443, Queries: qe[0], E2e: qe[1], TimeoutMs: 5, DelayMs: 0, Hostname: "93.184.216.34"}
					if x.proto == "tcp" && strings.Contains(strings.ToLower(x.method), "sack") {
						// whatever the spelling is taken for, a SACK attempt can only reach a listener of the harness
						rq.P.Hostname = "127.44.3.3"
						rq.SackSrv = true
						rq.Sack = SackCfg{Permit: true, TS: true, ClientNxt: 0x1000, ServerISN: 3, SynAckUs: 50}
					}
					if !yield(rq) {
						return
					}
				}
			}
		}
	}, checkC19)
}

// TestC19Defaults: a parameter that is not given is the documented default (CLI help / readme: protocol udp, port
// 33434, 3 traceroute queries, 50 end-to-end probes, last TTL 30, timeout 3000 ms, TCP method syn, IPv4).
func TestC19Defaults(t *testing.T) {
	rec := NewRecorder("C19", "C19Defaults", "enumeration through the HTTP handler: every query key left out in turn (and all of them except the target), for udp / icmp / tcp, the other parameters small; oracle of TestC19 with the documented default in place of the missing parameter (protocol udp, port 33434, 3 runs, 50 end-to-end probes, last TTL 30, method syn); exhaustive over that product")
	rec.Exhaustive = true
	RunCases(t, rec, func(yield func(*Request) bool) {
		keys := []string{"port", "protocol", "max-ttl", "timeout", "tcp-method", "traceroute-queries", "e2e-queries", "ipv6", "reverse-dns", "source-public-ip", "skip-private-hops"}
		sets := [][]string{keys}
		for _, k := range keys {
			sets = append(sets, []string{k})
		}
		for _, proto := range []string{"udp", "icmp", "tcp"} {
			for _, om := range sets {
				rq := &Request{HTTP: true, Scripts: []FlowScript{{Default: HopSpec{Silent: true}}}}
				rq.P = ReqParams{Protocol: proto, TCPMethod: "syn", MinTTL: 1, MaxTTL: 3, Port: 443, Queries: 1, E2e: 1, TimeoutMs: 5, DelayMs: 50, Hostname: "93.184.216.34", Omit: om}
				skip := false
				for _, k := range om {
					switch k {
					case "port":
						rq.P.Port = 33434
					case "protocol":
						if proto != "udp" {
							skip = len(om) == 1 // the default protocol is one protocol: covered once
						}
						rq.P.Protocol = "udp"
					case "max-ttl":
						rq.P.MaxTTL = 30
					case "timeout":
						rq.P.TimeoutMs = 3000
					case "tcp-method":
						rq.P.TCPMethod = "syn"
					case "traceroute-queries":
						rq.P.Queries = 3
					case "e2e-queries":
						rq.P.E2e = 50
					}
				}
				if skip || (len(om) > 1 && proto != "udp") {
					continue
				}
				if !yield(rq) {
					return
				}
			}
		}
	}, checkC19)
}
