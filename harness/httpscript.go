package harness

// Scripted http.RoundTripper for the public-IP providers (C08, C18).

import (
	"context"
	"errors"
	"io"
	"net/http"
	"strings"
	"sync"
	"time"
)

// ProviderStep is one scripted answer of a provider.
type ProviderStep struct {
	Kind    string `json:"kind"` // resp | neterr | hang-before | hang-after-headers | slow-body
	Status  int    `json:"status,omitempty"`
	Body    string `json:"body,omitempty"`
	DelayMs int    `json:"delay_ms,omitempty"`
	// Split > 0 (Kind resp): the body arrives in two pieces, Body[:Split] at once and the rest PieceMs later
	// (a chunked answer, a body that spans two segments)
	Split   int `json:"split,omitempty"`
	PieceMs int `json:"piece_ms,omitempty"`
}

// piecesBody hands out a body piece by piece, one piece per Read.
type piecesBody struct {
	ctx    context.Context
	pieces [][]byte
	wait   time.Duration
	n      int
}

func (b *piecesBody) Read(p []byte) (int, error) {
	for len(b.pieces) > 0 && len(b.pieces[0]) == 0 {
		b.pieces = b.pieces[1:]
	}
	if len(b.pieces) == 0 {
		return 0, io.EOF
	}
	if b.n > 0 && b.wait > 0 {
		select {
		case <-b.ctx.Done():
			return 0, b.ctx.Err()
		case <-time.After(b.wait):
		}
		b.wait = 0
	}
	b.n++
	k := copy(p, b.pieces[0])
	b.pieces[0] = b.pieces[0][k:]
	return k, nil
}
func (b *piecesBody) Close() error { return nil }

type httpCall struct {
	URL string
	At  time.Duration
	N   int
}

type scriptedRT struct {
	mu      sync.Mutex
	start   time.Time
	scripts map[string][]ProviderStep // by full URL
	def     []ProviderStep
	idx     map[string]int
	Calls   []httpCall
}

func newScriptedRT(scripts map[string][]ProviderStep, def []ProviderStep) *scriptedRT {
	return &scriptedRT{scripts: scripts, def: def, idx: map[string]int{}, start: time.Now()}
}

type hangBody struct {
	ctx context.Context
}

func (b hangBody) Read(p []byte) (int, error) {
	select {
	case <-b.ctx.Done():
		return 0, b.ctx.Err()
	case <-time.After(time.Hour):
		return 0, errors.New("scripted body gave up after one hour")
	}
}
func (b hangBody) Close() error { return nil }

type slowBody struct {
	ctx   context.Context
	data  []byte
	delay time.Duration
}

func (b *slowBody) Read(p []byte) (int, error) {
	if len(b.data) == 0 {
		return 0, io.EOF
	}
	select {
	case <-b.ctx.Done():
		return 0, b.ctx.Err()
	case <-time.After(b.delay):
	}
	p[0] = b.data[0]
	b.data = b.data[1:]
	return 1, nil
}
func (b *slowBody) Close() error { return nil }

func (s *scriptedRT) RoundTrip(req *http.Request) (*http.Response, error) {
	u := req.URL.String()
	s.mu.Lock()
	steps := s.scripts[u]
	if steps == nil {
		steps = s.def
	}
	i := s.idx[u]
	s.idx[u] = i + 1
	s.Calls = append(s.Calls, httpCall{URL: u, At: time.Since(s.start), N: i})
	s.mu.Unlock()
	if len(steps) == 0 {
		return nil, errors.New("scripted transport: no route to host")
	}
	if i >= len(steps) {
		i = len(steps) - 1
	}
	st := steps[i]
	ctx := req.Context()
	if st.DelayMs > 0 && st.Kind != "slow-body" {
		select {
		case <-ctx.Done():
			return nil, ctx.Err()
		case <-time.After(time.Duration(st.DelayMs) * time.Millisecond):
		}
	}
	mk := func(body io.ReadCloser) *http.Response {
		code := st.Status
		if code == 0 {
			code = 200
		}
		return &http.Response{StatusCode: code, Status: http.StatusText(code), Proto: "HTTP/1.1", ProtoMajor: 1, ProtoMinor: 1, Header: http.Header{}, Body: body, Request: req}
	}
	switch st.Kind {
	case "neterr":
		return nil, errors.New("scripted transport error")
	case "hang-before":
		select {
		case <-ctx.Done():
			return nil, ctx.Err()
		case <-time.After(time.Hour):
			return nil, errors.New("scripted provider gave up after one hour")
		}
	case "hang-after-headers":
		return mk(hangBody{ctx}), nil
	case "slow-body":
		d := time.Duration(st.DelayMs) * time.Millisecond
		if d == 0 {
			d = 300 * time.Millisecond
		}
		return mk(&slowBody{ctx: ctx, data: []byte(st.Body), delay: d}), nil
	}
	if st.Split > 0 && st.Split < len(st.Body) {
		return mk(&piecesBody{ctx: ctx, pieces: [][]byte{[]byte(st.Body[:st.Split]), []byte(st.Body[st.Split:])}, wait: time.Duration(st.PieceMs) * time.Millisecond}), nil
	}
	return mk(io.NopCloser(strings.NewReader(st.Body))), nil
}
