package harness

// C16: the result document is self-consistent and JSON-stable.

import (
	"bytes"
	"encoding/base64"
	"encoding/json"
	"fmt"
	"io"
	"math"
	"net"
	"reflect"
	"runtime"
	"sort"
	"strings"
	"sync"
	"testing"

	"github.com/DataDog/datadog-traceroute/result"
	"pgregory.net/rapid"
)

type docHop struct {
	Addr string  `json:"addr"` // "" | "v4:1.2.3.4" | "v6:..." | "map:1.2.3.4"
	RTT  float64 `json:"rtt"`
	Dest bool    `json:"dest,omitempty"`
}

type docCase struct {
	Runs [][]docHop `json:"runs"`
	RTTs []float64  `json:"rtts"`
	Perm []int      `json:"perm,omitempty"`
	// SkipPrivate: finish the document the way RunTraceroute does with SkipPrivateHops (Normalize, then RemovePrivateHops)
	SkipPrivate bool `json:"skip_private,omitempty"`
	// History: what the collection of runs went through before it is finished: "" nothing (identifiers empty);
	// "preset" identifiers already filled in, all with one value; "garbage" filled in with strings that are no
	// identifiers; "twice" a finished document that is finished again (after a JSON round trip, its first run
	// appended once more)
	History string `json:"history,omitempty"`
}

func ipOf(spec string) net.IP {
	switch {
	case spec == "":
		return nil
	case strings.HasPrefix(spec, "v4:"):
		return net.ParseIP(spec[3:]).To4()
	case strings.HasPrefix(spec, "map:"):
		return net.ParseIP(spec[4:]).To16()
	default:
		return net.ParseIP(spec[3:])
	}
}

func (c *docCase) build(rtts []float64) *result.Results {
	r := &result.Results{Protocol: "udp", Destination: result.Destination{Hostname: "example.test", Port: 33434}}
	for _, hops := range c.Runs {
		run := result.TracerouteRun{Source: result.TracerouteSource{IPAddress: net.ParseIP("192.0.2.2").To4(), Port: 40000}, Destination: result.TracerouteDestination{IPAddress: net.ParseIP("93.184.216.34").To4(), Port: 33434}}
		for i, h := range hops {
			run.Hops = append(run.Hops, &result.TracerouteHop{TTL: i + 1, IPAddress: ipOf(h.Addr), RTT: h.RTT, IsDest: h.Dest})
		}
		r.Traceroute.Runs = append(r.Traceroute.Runs, run)
	}
	r.E2eProbe.RTTs = append([]float64(nil), rtts...)
	return r
}

var addrPool = []string{"", "", "v4:10.0.0.1", "v4:8.8.8.8", "v4:198.18.0.1", "v4:0.0.0.0", "v4:255.255.255.255", "v6:2001:db8::1", "v6:fd00::1", "v6:::", "map:1.2.3.4", "map:10.1.2.3", "v6:::ffff:0:1"}

func genRTT(t *rapid.T, label string) float64 {
	switch oneOf(t, label+"_sel", 0, 0, 1, 2, 3, 4) {
	case 0:
		return 0
	case 1:
		return float64(rapid.Int64Range(1, 5_000_000_000).Draw(t, label+"_ns")) / 1e6
	case 2:
		return oneOf(t, label+"_const", 0.000001, 1, 20.5, 3000, 9.2e12, 1e-6)
	case 3:
		return float64(rapid.Int64Range(1, math.MaxInt64).Draw(t, label+"_big")) / 1e6
	default:
		return float64(rapid.IntRange(1, 400).Draw(t, label+"_ms"))
	}
}

func genDoc(t *rapid.T) *docCase {
	c := &docCase{}
	nr := rapid.IntRange(0, 6).Draw(t, "n_runs")
	for i := 0; i < nr; i++ {
		nh := rapid.IntRange(1, 12).Draw(t, fmt.Sprintf("r%d_nhops", i))
		var hops []docHop
		for j := 0; j < nh; j++ {
			h := docHop{Addr: oneOf(t, fmt.Sprintf("r%d_h%d_addr", i, j), addrPool...)}
			if h.Addr != "" {
				h.RTT = genRTT(t, fmt.Sprintf("r%d_h%d_rtt", i, j))
				h.Dest = j == nh-1 && rapid.Bool().Draw(t, fmt.Sprintf("r%d_h%d_dest", i, j))
			}
			hops = append(hops, h)
		}
		c.Runs = append(c.Runs, hops)
	}
	ns := oneOf(t, "n_samples_sel", 0, 1, 2, 3, 10, 50)
	mode := oneOf(t, "sample_mode", "mixed", "mixed", "all-zero", "same", "big")
	for i := 0; i < ns; i++ {
		switch mode {
		case "all-zero":
			c.RTTs = append(c.RTTs, 0)
		case "same":
			c.RTTs = append(c.RTTs, 9.2e12)
		case "big":
			c.RTTs = append(c.RTTs, float64(rapid.Int64Range(math.MaxInt64/2, math.MaxInt64).Draw(t, fmt.Sprintf("s%d_big", i)))/1e6)
		default:
			c.RTTs = append(c.RTTs, genRTT(t, fmt.Sprintf("s%d", i)))
		}
	}
	if ns > 1 {
		c.Perm = rapid.Permutation(seq(ns)).Draw(t, "perm")
	}
	c.SkipPrivate = rapid.Bool().Draw(t, "skip_private")
	c.History = oneOf(t, "history", "", "", "", "preset", "garbage", "twice")
	return c
}

// goldenKeys is the published wire contract (field names of the JSON document).
var goldenKeys = []string{
	"destination", "destination.hostname", "destination.port",
	"e2e_probe", "e2e_probe.jitter", "e2e_probe.packet_loss_percentage", "e2e_probe.packets_received", "e2e_probe.packets_sent",
	"e2e_probe.rtt", "e2e_probe.rtt.avg", "e2e_probe.rtt.max", "e2e_probe.rtt.min", "e2e_probe.rtts",
	"protocol", "source", "source.public_ip", "test_run_id",
	"traceroute", "traceroute.hop_count", "traceroute.hop_count.avg", "traceroute.hop_count.max", "traceroute.hop_count.min",
	"traceroute.runs", "traceroute.runs[].destination", "traceroute.runs[].destination.ip_address", "traceroute.runs[].destination.port",
	"traceroute.runs[].hops", "traceroute.runs[].hops[].ip_address", "traceroute.runs[].hops[].reachable", "traceroute.runs[].hops[].rtt", "traceroute.runs[].hops[].ttl",
	"traceroute.runs[].run_id", "traceroute.runs[].source", "traceroute.runs[].source.ip_address", "traceroute.runs[].source.port",
}

// optionalKeys may be absent (omitempty) but nothing else may appear.
var optionalKeys = map[string]bool{"traceroute.runs[].hops[].reverse_dns": true, "traceroute.runs[].destination.reverse_dns": true}

func collectKeys(v any, prefix string, out map[string]bool) {
	switch x := v.(type) {
	case map[string]any:
		for k, vv := range x {
			p := k
			if prefix != "" {
				p = prefix + "." + k
			}
			out[p] = true
			collectKeys(vv, p, out)
		}
	case []any:
		for _, vv := range x {
			collectKeys(vv, prefix+"[]", out)
		}
	}
}

var (
	idMu   sync.Mutex
	allIDs = map[string]bool{}
)

const relTol = 1e-9

func leq(a, b float64) bool { return a <= b+relTol*math.Max(math.Abs(a), math.Abs(b)) }

func checkC16(t *testing.T, c *docCase, rec *Recorder) []Diff {
	var ds []Diff
	add := func(sig, f string, a ...any) { ds = append(ds, Diff{"C16", sig, fmt.Sprintf(f, a...)}) }
	r := c.build(c.RTTs)
	switch c.History {
	case "preset":
		r.TestRunID = "AAAAAAAAAAAAAAAAAAAAAA"
		for i := range r.Traceroute.Runs {
			r.Traceroute.Runs[i].RunID = "AAAAAAAAAAAAAAAAAAAAAA"
		}
	case "garbage":
		r.TestRunID = "not an identifier"
		for i := range r.Traceroute.Runs {
			r.Traceroute.Runs[i].RunID = fmt.Sprintf("run %d", i)
		}
	case "twice":
		r.Normalize()
		idMu.Lock()
		allIDs[r.TestRunID] = true
		for _, run := range r.Traceroute.Runs {
			allIDs[run.RunID] = true
		}
		idMu.Unlock()
		if b, err := json.Marshal(r); err == nil {
			var back result.Results
			if json.Unmarshal(b, &back) == nil && len(back.Traceroute.Runs) == len(c.Runs) {
				// (the decoded document is the same collection of runs, C16's own round-trip clause)
				r = &back
			}
		}
	}
	r.Normalize()
	// reachable <=> address
	longest := 0
	for i, run := range r.Traceroute.Runs {
		if len(run.Hops) > longest {
			longest = len(run.Hops)
		}
		for j, h := range run.Hops {
			has := c.Runs[i][j].Addr != ""
			if h.Reachable != has {
				add("reachable", "run %d hop %d: reachable=%v but address %q", i, j, h.Reachable, c.Runs[i][j].Addr)
			}
		}
	}
	if c.SkipPrivate {
		// the finished document of a request with SkipPrivateHops: same relation on what is left
		r.RemovePrivateHops()
		for i, run := range r.Traceroute.Runs {
			for j, h := range run.Hops {
				if h == nil {
					add("nil-hop", "run %d hop %d is nil after private hops were blanked", i, j)
				} else if h.Reachable != (len(h.IPAddress) > 0) {
					add("reachable", "run %d hop %d after private hops were blanked: reachable=%v, address %q", i, j, h.Reachable, h.IPAddress)
				}
			}
		}
	}
	hc := r.Traceroute.HopCount
	if len(c.Runs) > 0 {
		if !(1 <= hc.Min && float64(hc.Min) <= hc.Avg+1e-9 && hc.Avg <= float64(hc.Max)+1e-9 && hc.Max <= longest) {
			add("hop-count", "hop count min=%d avg=%v max=%d, longest run %d", hc.Min, hc.Avg, hc.Max, longest)
		}
		// independent computation
		var counts []int
		for _, hops := range c.Runs {
			n := len(hops)
			for j := len(hops) - 1; j >= 0; j-- {
				if hops[j].Addr != "" {
					n = j + 1
					break
				}
			}
			counts = append(counts, n)
		}
		sort.Ints(counts)
		sum := 0
		for _, x := range counts {
			sum += x
		}
		if hc.Min != counts[0] || hc.Max != counts[len(counts)-1] || math.Abs(hc.Avg-float64(sum)/float64(len(counts))) > 1e-9 {
			add("hop-count-value", "hop count min/avg/max = %d/%v/%d, independent computation over %v", hc.Min, hc.Avg, hc.Max, counts)
		}
	}
	e := r.E2eProbe
	pos := 0
	var minV, maxV float64
	for _, x := range c.RTTs {
		if x > 0 {
			if pos == 0 || x < minV {
				minV = x
			}
			if pos == 0 || x > maxV {
				maxV = x
			}
			pos++
		}
	}
	if len(c.RTTs) > 0 {
		if e.PacketsSent != len(c.RTTs) {
			add("sent", "packets_sent %d, %d samples", e.PacketsSent, len(c.RTTs))
		}
		if e.PacketsReceived != pos {
			add("received", "packets_received %d, %d positive samples", e.PacketsReceived, pos)
		}
		wantLoss := float32(len(c.RTTs)-pos) / float32(len(c.RTTs))
		if math.Abs(float64(e.PacketLossPercentage-wantLoss)) > 1e-6 {
			add("loss", "loss %v, want (sent-received)/sent = %v", e.PacketLossPercentage, wantLoss)
		}
	}
	if pos > 0 {
		if e.RTT.Min != minV || e.RTT.Max != maxV {
			add("rtt-minmax", "rtt min/max %v/%v, positive samples have %v/%v", e.RTT.Min, e.RTT.Max, minV, maxV)
		}
		if !(leq(e.RTT.Min, e.RTT.Avg) && leq(e.RTT.Avg, e.RTT.Max)) {
			add("rtt-order", "rtt min %v <= avg %v <= max %v violated", e.RTT.Min, e.RTT.Avg, e.RTT.Max)
		}
		if !(e.Jitter >= 0 && leq(e.Jitter, e.RTT.Max-e.RTT.Min)) {
			add("jitter", "jitter %v not within [0, max-min = %v]", e.Jitter, e.RTT.Max-e.RTT.Min)
		}
	} else if e.RTT.Min != 0 || e.RTT.Max != 0 || e.RTT.Avg != 0 || e.Jitter != 0 {
		add("stats-without-samples", "no positive sample but stats %+v jitter %v", e.RTT, e.Jitter)
	}
	// permutation invariance
	if len(c.Perm) == len(c.RTTs) && len(c.Perm) > 1 {
		p := make([]float64, len(c.RTTs))
		for i, j := range c.Perm {
			p[i] = c.RTTs[j]
		}
		r2 := c.build(p)
		r2.Normalize()
		e2 := r2.E2eProbe
		if e2.PacketsSent != e.PacketsSent || e2.PacketsReceived != e.PacketsReceived || e2.RTT.Min != e.RTT.Min || e2.RTT.Max != e.RTT.Max || !leq(e2.RTT.Avg, e.RTT.Avg) || !leq(e.RTT.Avg, e2.RTT.Avg) || e2.PacketLossPercentage != e.PacketLossPercentage {
			add("order-dependence", "statistics change under a permutation of the samples: %+v vs %+v", e, e2)
		}
	}
	// identifiers
	ids := []string{r.TestRunID}
	for _, run := range r.Traceroute.Runs {
		ids = append(ids, run.RunID)
	}
	idMu.Lock()
	for _, id := range ids {
		raw, err := base64.RawURLEncoding.DecodeString(id)
		if id == "" || err != nil || len(raw) != 16 {
			add("id-format", "identifier %q is not URL-safe base64 of 16 bytes", id)
		}
		if allIDs[id] {
			add("id-reused", "identifier %q was handed out twice", id)
		}
		if len(allIDs) < 2_000_000 {
			allIDs[id] = true
		}
	}
	idMu.Unlock()
	// JSON
	b, err := json.Marshal(r)
	if err != nil {
		add("json-marshal", "marshal failed: %v", err)
	} else {
		var generic any
		json.Unmarshal(b, &generic)
		keys := map[string]bool{}
		collectKeys(generic, "", keys)
		for _, k := range goldenKeys {
			need := true
			if strings.HasPrefix(k, "traceroute.runs[]") && len(r.Traceroute.Runs) == 0 {
				need = false
			}
			if need && !keys[k] {
				add("json-key-missing", "published key %q missing from the document", k)
			}
		}
		golden := map[string]bool{}
		for _, k := range goldenKeys {
			golden[k] = true
		}
		for k := range keys {
			if !golden[k] && !optionalKeys[k] {
				add("json-key-unknown", "document has key %q which is not a published field name", k)
			}
		}
		var back result.Results
		if err := json.Unmarshal(b, &back); err != nil {
			add("json-unmarshal", "round trip failed: %v", err)
		} else if d := docDiff(r, &back); d != "" {
			add("json-roundtrip", "decoded document differs: %s", d)
		}
	}
	lens := map[int]bool{}
	for _, h := range c.Runs {
		lens[len(h)] = true
	}
	rec.Case(scenarioKey(c), len(lens) >= 2 && pos >= 2, c)
	return ds
}

func docDiff(a, b *result.Results) string {
	if a.TestRunID != b.TestRunID || a.Protocol != b.Protocol || a.Source != b.Source || a.Destination != b.Destination {
		return "top-level fields"
	}
	if !reflect.DeepEqual(a.Traceroute.HopCount, b.Traceroute.HopCount) {
		return "hop_count"
	}
	if len(a.Traceroute.Runs) != len(b.Traceroute.Runs) {
		return "run count"
	}
	for i := range a.Traceroute.Runs {
		x, y := a.Traceroute.Runs[i], b.Traceroute.Runs[i]
		if x.RunID != y.RunID || !x.Source.IPAddress.Equal(y.Source.IPAddress) || x.Source.Port != y.Source.Port || !x.Destination.IPAddress.Equal(y.Destination.IPAddress) || x.Destination.Port != y.Destination.Port {
			return fmt.Sprintf("run %d header", i)
		}
		if len(x.Hops) != len(y.Hops) {
			return fmt.Sprintf("run %d hop count", i)
		}
		for j := range x.Hops {
			h, g := x.Hops[j], y.Hops[j]
			if h.TTL != g.TTL || h.RTT != g.RTT || h.Reachable != g.Reachable || !(h.IPAddress.Equal(g.IPAddress) || len(h.IPAddress) == 0 && len(g.IPAddress) == 0) || strings.Join(h.ReverseDns, ",") != strings.Join(g.ReverseDns, ",") {
				return fmt.Sprintf("run %d hop %d: %+v vs %+v", i, j, *h, *g)
			}
		}
	}
	ea, eb := a.E2eProbe, b.E2eProbe
	if len(ea.RTTs) != len(eb.RTTs) {
		return "rtts length"
	}
	for i := range ea.RTTs {
		if ea.RTTs[i] != eb.RTTs[i] {
			return "rtts"
		}
	}
	if ea.PacketsSent != eb.PacketsSent || ea.PacketsReceived != eb.PacketsReceived || ea.PacketLossPercentage != eb.PacketLossPercentage || ea.Jitter != eb.Jitter || ea.RTT != eb.RTT {
		return "e2e stats"
	}
	return ""
}

func TestC16(t *testing.T) {
	rec := NewRecorder("C16", "C16", "rapid: result documents (0..6 runs of 1..12 hops with nil / 4-byte / 16-byte / IPv4-mapped addresses; 0..50 RTT samples: zero, Duration-derived up to 9.2e12 ms, all-zero, identical, huge; a permutation of the sample order; a quarter of the documents with a history: identifiers already filled in with one value or with strings that are no identifiers, or a finished document decoded from its JSON and finished again); oracle after Normalize(): reachable <=> address, hop-count relations and an independent recomputation, sent/received/loss, min<=avg<=max and 0<=jitter<=max-min (relative tolerance 1e-9 for floating-point summation), permutation invariance, identifiers URL-safe base64 of 16 bytes and never repeated across the whole run, JSON key set == published list, Unmarshal(Marshal(d)) == d; non-trivial = >= 2 runs of different length and >= 2 positive samples")
	RunProp(t, rec, genDoc, checkC16)
}

// TestC16ConcurrentIDs: identifiers stay well-formed and pairwise distinct when documents are finished by
// several goroutines at once (every request of the HTTP server normalises its own document).
func TestC16ConcurrentIDs(t *testing.T) {
	rec := NewRecorder("C16", "C16ConcurrentIDs", "enumeration: 8 goroutines finishing 20 000 three-run documents each at the same time (640 000 identifiers per round, 3 rounds with GOMAXPROCS 16, 2, 1); oracle: no panic, every identifier is URL-safe base64 of 16 bytes, no identifier appears twice; non-trivial always")
	rec.Exhaustive = true
	type round struct {
		Procs int `json:"gomaxprocs"`
	}
	RunCases(t, rec, func(yield func(*round) bool) {
		for _, p := range []int{16, 2, 1} {
			if !yield(&round{Procs: p}) {
				return
			}
		}
	}, func(t *testing.T, c *round, rec *Recorder) []Diff {
		old := runtime.GOMAXPROCS(c.Procs)
		defer runtime.GOMAXPROCS(old)
		const workers = 8
		docs := envInt("VERIF_C16_DOCS", 20000)
		ids := make([][]string, workers)
		panics := make([]string, workers)
		var wg sync.WaitGroup
		for w := 0; w < workers; w++ {
			wg.Add(1)
			go func(w int) {
				defer wg.Done()
				defer func() {
					if r := recover(); r != nil {
						panics[w] = fmt.Sprint(r)
					}
				}()
				for i := 0; i < docs; i++ {
					d := &result.Results{}
					d.Traceroute.Runs = make([]result.TracerouteRun, 3)
					d.Normalize()
					ids[w] = append(ids[w], d.TestRunID, d.Traceroute.Runs[0].RunID, d.Traceroute.Runs[1].RunID, d.Traceroute.Runs[2].RunID)
				}
			}(w)
		}
		wg.Wait()
		var ds []Diff
		seen := map[string]bool{}
		dups, bad := 0, 0
		for w := range ids {
			if panics[w] != "" {
				ds = append(ds, Diff{"C16", "panic", fmt.Sprintf("finishing documents concurrently panicked: %s", panics[w])})
			}
			for _, id := range ids[w] {
				raw, err := base64.RawURLEncoding.DecodeString(id)
				if err != nil || len(raw) != 16 {
					bad++
				}
				if seen[id] {
					dups++
				}
				seen[id] = true
			}
		}
		if dups > 0 {
			ds = append(ds, Diff{"C16", "id-reused", fmt.Sprintf("%d identifiers were handed out more than once among %d generated by %d goroutines", dups, len(seen)+dups, workers)})
		}
		if bad > 0 {
			ds = append(ds, Diff{"C16", "id-format", fmt.Sprintf("%d identifiers are not URL-safe base64 of 16 bytes", bad)})
		}
		rec.CaseEnumerated(true, map[string]any{"gomaxprocs": c.Procs, "identifiers": len(seen)})
		return ds
	})
}

// TestC16AfterFailedWrite: what one client gets must not depend on what happened to another client's answer: a
// response that could not be written (the client hung up) is followed by ordinary requests, each of which must get
// exactly one document of its own.
func TestC16AfterFailedWrite(t *testing.T) {
	rec := NewRecorder("C16", "C16AfterFailedWrite", "enumeration through the HTTP handler over the simulated wire: a request whose response writer fails at once / after 200 / after 5000 bytes (documents of 4 runs x 12 hops, several kB), then three ordinary requests with other parameters; oracle: every ordinary response body is exactly one JSON document (nothing before or after it) that decodes to a result with the requested number of runs and identifiers that appear in no earlier document, including the one that could not be delivered; non-trivial always")
	rec.Exhaustive = true
	type seqCase struct {
		FailAfter int `json:"write_fails_after"`
	}
	RunCases(t, rec, func(yield func(*seqCase) bool) {
		for _, n := range []int{-1, 200, 5000, 1} {
			if !yield(&seqCase{n}) {
				return
			}
		}
	}, func(t *testing.T, c *seqCase, rec *Recorder) []Diff {
		var ds []Diff
		add := func(sig, f string, a ...any) { ds = append(ds, Diff{"C16", sig, fmt.Sprintf(f, a...)}) }
		mk := func(q, maxTTL int) *Request {
			rq := &Request{HTTP: true, Scripts: []FlowScript{{DestDist: 0, Default: HopSpec{DelayUs: 1000}}}}
			rq.P = ReqParams{Hostname: "93.184.216.34", Port: 443, Protocol: "udp", MinTTL: 1, MaxTTL: maxTTL, DelayMs: 50, TimeoutMs: 20, Queries: q, E2e: 0}
			return rq
		}
		seen := map[string]string{}
		note := func(doc *result.Results, who string) {
			seen[doc.TestRunID] = who
			for _, r := range doc.Traceroute.Runs {
				seen[r.RunID] = who
			}
		}
		first := mk(4, 12)
		first.WriteFailsAfter = c.FailAfter
		o := RunRequest(t, first)
		if o.Panic != "" || o.Deadlock != "" {
			return []Diff{{"C09", "crash", o.Panic + o.Deadlock}}
		}
		var lost result.Results
		if json.Unmarshal(o.Attempted, &lost) == nil {
			note(&lost, "the document that could not be delivered")
		}
		for i, q := range []int{1, 2, 3} {
			rq := mk(q, 3+i)
			o := RunRequest(t, rq)
			if o.Panic != "" || o.Deadlock != "" || o.Err != nil {
				add("request-failed", "request %d after the failed write: %v %s%s", i+1, o.Err, o.Panic, o.Deadlock)
				break
			}
			dec := json.NewDecoder(bytes.NewReader(o.Body))
			var doc result.Results
			if err := dec.Decode(&doc); err != nil {
				add("body-not-a-document", "request %d after a response write that failed (after %d bytes): the body does not decode: %v; it begins %q", i+1, c.FailAfter, err, string(o.Body[:min(len(o.Body), 80)]))
				break
			}
			var extra any
			if err := dec.Decode(&extra); err != io.EOF {
				add("more-than-one-document", "request %d after a response write that failed (after %d bytes): the body holds more than one JSON value (%d bytes in all)", i+1, c.FailAfter, len(o.Body))
				break
			}
			if len(doc.Traceroute.Runs) != q {
				add("someone-elses-document", "request %d asked for %d runs and got a document with %d", i+1, q, len(doc.Traceroute.Runs))
			}
			for _, id := range append([]string{doc.TestRunID}, func() []string {
				var x []string
				for _, r := range doc.Traceroute.Runs {
					x = append(x, r.RunID)
				}
				return x
			}()...) {
				if who, dup := seen[id]; dup {
					add("id-reused", "request %d: identifier %q already appeared in %s", i+1, id, who)
				}
			}
			note(&doc, fmt.Sprintf("the answer to request %d", i+1))
		}
		rec.CaseEnumerated(true, c, fmt.Sprintf("fails_after:%d", c.FailAfter))
		return ds
	})
}
