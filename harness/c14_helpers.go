package harness

import (
	"context"
	"net"
	"net/netip"
	"time"

	"github.com/DataDog/datadog-traceroute/common"
	"github.com/DataDog/datadog-traceroute/result"
	"github.com/DataDog/datadog-traceroute/sack"
	"github.com/DataDog/datadog-traceroute/udp"
)

func newUDP(target netip.Addr, port uint16, c *c14Case, delay time.Duration) *udp.UDPv4 {
	u := udp.NewUDPv4(net.IP(target.AsSlice()), port, uint8(c.MinTTL), uint8(c.MaxTTL), delay, time.Duration(c.TimeoutMs)*time.Millisecond, false)
	u.LoosenICMPSrc = true
	return u
}

func runSackWith(pp common.TracerouteParallelParams, target netip.AddrPort, timeout time.Duration) (*result.TracerouteRun, error) {
	return sack.RunSackTraceroute(context.Background(), sack.Params{Target: target, HandshakeTimeout: timeout, FinTimeout: 10 * time.Millisecond, ParallelParams: pp, LoosenICMPSrc: true})
}
