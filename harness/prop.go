package harness

// Property runner plumbing: statistics, replay files, in-flight files, known findings.

import (
	"bufio"
	"encoding/json"
	"fmt"
	"hash/fnv"
	"os"
	"path/filepath"
	"sort"
	"strconv"
	"strings"
	"sync"
	"testing"

	"pgregory.net/rapid"
)

func envInt(name string, def int) int {
	if v, err := strconv.Atoi(os.Getenv(name)); err == nil {
		return v
	}
	return def
}

func outDir() string {
	d := os.Getenv("VERIF_OUT")
	if d == "" {
		d = filepath.Join(os.TempDir(), "verif-out")
	}
	os.MkdirAll(d, 0o755)
	return d
}

func tier() string {
	if os.Getenv("VERIF_TIER") == "thorough" {
		return "thorough"
	}
	return "quick"
}

func shard() string {
	if s := os.Getenv("VERIF_SHARD"); s != "" {
		return s
	}
	return "0"
}

// Recorder accumulates what a check covered; it is flushed to stats-<name>-<shard>.json.
type Recorder struct {
	mu            sync.Mutex
	Prop          string         `json:"prop"`
	Name          string         `json:"name"`
	Evals         int            `json:"evaluations"`
	Labels        map[string]int `json:"labels"`
	nontrivial    map[uint64]struct{}
	NonTrivialN   int      `json:"distinct_nontrivial"`
	Samples       []any    `json:"samples"`
	Excluded      int      `json:"excluded_known"`
	Exhaustive    bool     `json:"exhaustive"`
	Rule          string   `json:"rule"`
	Assumptions   []string `json:"assumptions"`
	Known         []string `json:"known_findings_seen"`
	Violations    int      `json:"violations"`
	Inconclusive  string   `json:"inconclusive,omitempty"`
	flushEvery    int
	shardOverride string
	// ExtraDistinct counts non-trivial cases that are distinct by construction (complete enumerations),
	// for which no hash needs to be kept
	ExtraDistinct int `json:"extra_distinct"`
}

// CaseEnumerated records one case of a complete enumeration (distinct by construction).
func (r *Recorder) CaseEnumerated(nontrivial bool, sample any, labels ...string) {
	r.mu.Lock()
	defer r.mu.Unlock()
	r.Evals++
	for _, l := range labels {
		r.Labels[l]++
	}
	if nontrivial {
		r.ExtraDistinct++
		if len(r.Samples) < 4 && sample != nil {
			r.Samples = append(r.Samples, sample)
		}
	}
}

func NewRecorder(prop, name, rule string) *Recorder {
	return &Recorder{Prop: prop, Name: name, Rule: rule, Labels: map[string]int{}, nontrivial: map[uint64]struct{}{}}
}

func hashKey(s string) uint64 {
	h := fnv.New64a()
	h.Write([]byte(s))
	return h.Sum64()
}

// Case records one evaluated case. key identifies it for distinctness; nontrivial says whether it
// satisfies the property's non-triviality rule.
func (r *Recorder) Case(key string, nontrivial bool, sample any, labels ...string) {
	r.mu.Lock()
	defer func() {
		fl := r.flushEvery > 0 && r.Evals%r.flushEvery == 0
		r.mu.Unlock()
		if fl {
			r.Flush()
		}
	}()
	r.Evals++
	for _, l := range labels {
		r.Labels[l]++
	}
	if nontrivial && len(r.nontrivial) < 200000 {
		h := hashKey(key)
		if _, ok := r.nontrivial[h]; !ok {
			r.nontrivial[h] = struct{}{}
			if len(r.Samples) < 4 && sample != nil {
				r.Samples = append(r.Samples, sample)
			}
		}
	}
}

func (r *Recorder) Label(l string) {
	r.mu.Lock()
	r.Labels[l]++
	r.mu.Unlock()
}

func (r *Recorder) Flush() {
	r.mu.Lock()
	defer r.mu.Unlock()
	r.NonTrivialN = len(r.nontrivial) + r.ExtraDistinct
	hs := make([]string, 0, len(r.nontrivial))
	for h := range r.nontrivial {
		hs = append(hs, strconv.FormatUint(h, 16))
	}
	sort.Strings(hs)
	type full struct {
		*Recorder
		Hashes []string `json:"hashes"`
	}
	b, _ := json.Marshal(full{r, hs})
	sh := shard()
	if r.shardOverride != "" {
		sh = r.shardOverride
	}
	os.WriteFile(filepath.Join(outDir(), fmt.Sprintf("stats-%s-%s.json", r.Name, sh)), b, 0o644)
}

// ---- known findings ----

type knownFinding struct {
	Property  string `json:"property"`
	Signature string `json:"signature"`
	What      string `json:"what"`
}

var (
	knownOnce sync.Once
	knownList []knownFinding
)

func knownFindings() []knownFinding {
	knownOnce.Do(func() {
		path := os.Getenv("VERIF_KNOWN")
		if path == "" {
			path = "/verif/known_findings.jsonl"
		}
		f, err := os.Open(path)
		if err != nil {
			return
		}
		defer f.Close()
		s := bufio.NewScanner(f)
		for s.Scan() {
			line := strings.TrimSpace(s.Text())
			if !strings.HasPrefix(line, "{") {
				continue // "fixed:" lines suppress nothing
			}
			var k knownFinding
			if json.Unmarshal([]byte(line), &k) == nil && k.Property != "" && k.Signature != "" {
				knownList = append(knownList, k)
			}
		}
	})
	return knownList
}

func isKnown(prop, sig string) *knownFinding {
	for i := range knownFindings() {
		k := &knownList[i]
		if k.Property == prop && k.Signature == sig {
			return k
		}
	}
	return nil
}

// ---- failure / replay files ----

type failureFile struct {
	Prop     string          `json:"property"`
	Test     string          `json:"test"`
	Scenario json.RawMessage `json:"scenario"`
	Diffs    []Diff          `json:"diffs"`
}

func writeJSON(path string, v any) {
	b, err := json.MarshalIndent(v, "", " ")
	if err != nil {
		b = []byte(fmt.Sprintf("{\"marshal_error\":%q}", err.Error()))
	}
	os.WriteFile(path, b, 0o644)
}

var inflight struct {
	mu         sync.Mutex
	prop, test string
	sc         any
}

// reportWedge is called by the wedge monitor (simnet.go): the case in flight can never end. It is written down
// as a failure of the property being checked and the process ends.
func reportWedge(msg string) {
	inflight.mu.Lock()
	prop, test, sc := inflight.prop, inflight.test, inflight.sc
	inflight.mu.Unlock()
	if prop == "" {
		return
	}
	d := []Diff{{prop, "wedged-in-write", msg}}
	writeFailure(prop, test, sc, d)
	fmt.Printf("%s [wedged-in-write] %s\n", prop, msg)
	os.Exit(1)
}

func writeInflight(prop, test string, sc any) {
	inflight.mu.Lock()
	inflight.prop, inflight.test, inflight.sc = prop, test, sc
	inflight.mu.Unlock()
	if os.Getenv("VERIF_INFLIGHT") == "0" {
		return
	}
	b, _ := json.Marshal(sc)
	writeJSON(filepath.Join(outDir(), fmt.Sprintf("inflight-%s-%s-%s.json", prop, fileTestName(test), shard())), failureFile{Prop: prop, Test: test, Scenario: b})
}

// fileTestName is the top-level test's name as used in file names (jobs of one property run side by side and
// must not overwrite each other's scenario files).
func fileTestName(test string) string {
	if i := strings.IndexByte(test, '/'); i >= 0 {
		test = test[:i]
	}
	var sb strings.Builder
	for _, r := range test {
		if r == '_' || r >= '0' && r <= '9' || r >= 'a' && r <= 'z' || r >= 'A' && r <= 'Z' {
			sb.WriteRune(r)
		}
	}
	return sb.String()
}

func writeFailure(prop, test string, sc any, diffs []Diff) {
	b, _ := json.Marshal(sc)
	writeJSON(filepath.Join(outDir(), fmt.Sprintf("failure-%s-%s-%s.json", prop, fileTestName(test), shard())), failureFile{Prop: prop, Test: test, Scenario: b, Diffs: diffs})
}

// filterDiffs keeps the diffs that belong to prop and are not listed known findings.
func filterDiffs(prop string, ds []Diff, rec *Recorder) []Diff {
	var out []Diff
	for _, d := range ds {
		if d.Prop != prop {
			continue
		}
		if k := isKnown(prop, d.Sig); k != nil {
			rec.mu.Lock()
			seen := false
			for _, s := range rec.Known {
				seen = seen || s == d.Sig
			}
			if !seen {
				rec.Known = append(rec.Known, d.Sig)
				fmt.Printf("KNOWN-FINDING: property=%s %s (%s)\n", prop, k.What, d.Sig)
			}
			rec.Excluded++
			rec.mu.Unlock()
			continue
		}
		out = append(out, d)
	}
	return out
}

// RunProp drives one property: replay mode executes a saved scenario once without rapid; otherwise
// rapid generates scenarios. check returns every diff it sees; only those for prop fail the case.
func RunProp[T any](t *testing.T, rec *Recorder, gen func(*rapid.T) T, check func(t *testing.T, sc T, rec *Recorder) []Diff) {
	defer rec.Flush()
	if replayIfRequested(t, rec, check) {
		return
	}
	if !replayCorpus(t, rec, check) {
		return
	}
	rapid.Check(t, func(rt *rapid.T) {
		sc := gen(rt)
		writeInflight(rec.Prop, t.Name(), sc)
		ds := filterDiffs(rec.Prop, check(t, sc, rec), rec)
		if len(ds) > 0 {
			writeFailure(rec.Prop, t.Name(), sc, ds)
			msg := make([]string, 0, len(ds))
			for _, d := range ds {
				msg = append(msg, d.String())
			}
			rt.Fatalf("%s violated:\n  %s", rec.Prop, strings.Join(msg, "\n  "))
		}
	})
	if t.Failed() {
		rec.Violations++
	}
}

// RunCases drives a deterministic enumeration through the same check (no rapid).
func RunCases[T any](t *testing.T, rec *Recorder, cases func(yield func(T) bool), check func(t *testing.T, sc T, rec *Recorder) []Diff) {
	defer rec.Flush()
	if replayIfRequested(t, rec, check) {
		return
	}
	if !replayCorpus(t, rec, check) {
		return
	}
	cases(func(sc T) bool {
		writeInflight(rec.Prop, t.Name(), sc)
		ds := filterDiffs(rec.Prop, check(t, sc, rec), rec)
		if len(ds) > 0 {
			rec.Violations++
			writeFailure(rec.Prop, t.Name(), sc, ds)
			for _, d := range ds {
				t.Errorf("%s", d)
			}
			return false
		}
		return true
	})
}

// replayIfRequested re-executes one saved scenario (VERIF_REPLAY) without any generator.
func replayIfRequested[T any](t *testing.T, rec *Recorder, check func(t *testing.T, sc T, rec *Recorder) []Diff) bool {
	path := os.Getenv("VERIF_REPLAY")
	if path == "" {
		return false
	}
	var ff failureFile
	b, err := os.ReadFile(path)
	if err != nil {
		t.Fatalf("replay: %v", err)
	}
	if err := json.Unmarshal(b, &ff); err != nil {
		t.Fatalf("replay: %v", err)
	}
	if ff.Test != "" && ff.Test != t.Name() {
		t.Skipf("replay file is for %s", ff.Test)
	}
	var sc T
	if err := json.Unmarshal(ff.Scenario, &sc); err != nil {
		t.Fatalf("replay: scenario: %v", err)
	}
	ds := filterDiffs(rec.Prop, check(t, sc, rec), rec)
	if len(ds) > 0 {
		rec.Violations++
		writeFailure(rec.Prop, t.Name(), sc, ds)
		for _, d := range ds {
			t.Errorf("%s", d)
		}
	}
	return true
}

// replayCorpus re-executes every saved regression scenario of this test (VERIF_CORPUS directory) before
// any generation; it returns false if one of them fails.
func replayCorpus[T any](t *testing.T, rec *Recorder, check func(t *testing.T, sc T, rec *Recorder) []Diff) bool {
	dir := os.Getenv("VERIF_CORPUS")
	if dir == "" {
		return true
	}
	files, _ := filepath.Glob(filepath.Join(dir, "*.json"))
	sort.Strings(files)
	ok := true
	for _, path := range files {
		var ff failureFile
		b, err := os.ReadFile(path)
		if err != nil || json.Unmarshal(b, &ff) != nil || ff.Test != t.Name() {
			continue
		}
		var sc T
		if json.Unmarshal(ff.Scenario, &sc) != nil {
			continue
		}
		rec.Label("corpus-replay")
		writeInflight(rec.Prop, t.Name(), sc)
		ds := filterDiffs(rec.Prop, check(t, sc, rec), rec)
		if len(ds) > 0 {
			rec.Violations++
			writeFailure(rec.Prop, t.Name(), sc, ds)
			for _, d := range ds {
				t.Errorf("corpus %s: %s", filepath.Base(path), d)
			}
			ok = false
			break
		}
	}
	return ok
}

// ---- recorder for native fuzz targets (one per worker process, flushed periodically) ----

var (
	fuzzRecMu sync.Mutex
	fuzzRecs  = map[string]*Recorder{}
)

func fuzzRecorder(name string) *Recorder {
	fuzzRecMu.Lock()
	defer fuzzRecMu.Unlock()
	r := fuzzRecs[name]
	if r == nil {
		r = NewRecorder(name[:3], name, "native go fuzzing (coverage-guided) of "+name+": fuzzer bytes are decoded into mutation specs over the genuine replies of a fixed short scenario, or into raw packets; same oracle as the rapid check; non-trivial = a hostile packet was returned by Read; distinct by input hash (capped)")
		r.flushEvery = 500
		r.shardOverride = fmt.Sprintf("w%d", os.Getpid())
		fuzzRecs[name] = r
	}
	return r
}
