package harness

// C11: concurrent traceroutes are isolated; identifier ranges never overlap.

import (
	"context"
	"fmt"
	"net/netip"
	"os"
	"runtime"
	"sort"
	"sync"
	"sync/atomic"
	"testing"
	"testing/synctest"
	"time"

	"github.com/DataDog/datadog-traceroute/common"
	"github.com/DataDog/datadog-traceroute/icmp"
	"github.com/DataDog/datadog-traceroute/packets"
	"github.com/DataDog/datadog-traceroute/result"
	"github.com/DataDog/datadog-traceroute/tcp"
	"pgregory.net/rapid"
)

type MultiScenario struct {
	Runs       []*Scenario  `json:"runs"`
	StartUs    []int64      `json:"start_us"`
	Scripts    []FlowScript `json:"scripts"`
	EchoBase   uint32       `json:"echo_base"`
	PktIDBase  uint32       `json:"pktid_base"`
	Sack       SackCfg      `json:"sack"`
	SackAddr   string       `json:"sack_addr,omitempty"`
	WriteLagUs int64        `json:"write_lag_us,omitempty"`
	OneP       bool         `json:"one_p,omitempty"`
}

type multiOutcome struct {
	Runs     []*result.TracerouteRun
	Errs     []error
	StartAt  []time.Duration
	EndAt    []time.Duration
	Panic    string
	Deadlock string
	Wire     *Wire
	World    *NetWorld
}

func RunMulti(t *testing.T, ms *MultiScenario) *multiOutcome {
	out := &multiOutcome{Runs: make([]*result.TracerouteRun, len(ms.Runs)), Errs: make([]error, len(ms.Runs)), StartAt: make([]time.Duration, len(ms.Runs)), EndAt: make([]time.Duration, len(ms.Runs))}
	world := NewNetWorld(ms.Scripts...)
	world.Strict = true
	out.World = world
	targets := make([]netip.AddrPort, len(ms.Runs))
	for i, sc := range ms.Runs {
		targets[i] = netip.AddrPortFrom(netip.MustParseAddr(sc.Target), uint16(sc.Port))
	}
	if ms.SackAddr != "" {
		srv, err := NewSackServer(netip.MustParseAddr(ms.SackAddr), 0, ms.Sack)
		if err != nil {
			out.Panic = "harness-infra: " + err.Error()
			return out
		}
		defer srv.Close()
		world.Sack = srv
		for i, sc := range ms.Runs {
			if sc.Variant == "sack" {
				targets[i] = srv.Addr
			}
		}
	}
	packets.VerifSetPacketIDBase(ms.PktIDBase)
	icmp.VerifSetEchoIDBase(ms.EchoBase)
	tcp.VerifSetSeqFn(nil)
	func() {
		defer func() {
			if r := recover(); r != nil {
				out.Deadlock = fmt.Sprint(r)
			}
		}()
		synctest.Test(t, func(t *testing.T) {
			w := NewWire(world)
			w.MaxVirtual = 30 * time.Minute
			w.WriteLag = us(ms.WriteLagUs)
			out.Wire = w
			packets.SetVerifHooks(w.Hooks())
			defer packets.SetVerifHooks(nil)
			var wg sync.WaitGroup
			var mu sync.Mutex
			for i := range ms.Runs {
				wg.Add(1)
				go func(i int) {
					defer wg.Done()
					defer func() {
						if r := recover(); r != nil {
							mu.Lock()
							out.Panic += fmt.Sprintf("run %d: %v\n", i, r)
							mu.Unlock()
						}
					}()
					if i < len(ms.StartUs) {
						time.Sleep(us(ms.StartUs[i]))
					}
					st := w.since()
					r, err := callEntry(context.Background(), ms.Runs[i], targets[i])
					mu.Lock()
					out.Runs[i], out.Errs[i], out.StartAt[i], out.EndAt[i] = r, err, st, w.since()
					mu.Unlock()
				}(i)
			}
			wg.Wait()
		})
	}()
	return out
}

// expectedHops is what flow f's script says a run over [min,max] must report (replies are scripted well
// inside the listening windows, so timing cannot change presence).
type expHop struct {
	ttl  int
	addr netip.Addr
	dest bool
}

func expectedHops(sc *FlowScript, flow int, v6 bool, target netip.Addr, min, max int) []expHop {
	var out []expHop
	for ttl := min; ttl <= max; ttl++ {
		h := sc.Hop(ttl)
		reached := sc.DestDist > 0 && ttl >= sc.DestDist
		e := expHop{ttl: ttl}
		if !h.Silent {
			if reached {
				e.addr, e.dest = target, true
			} else {
				e.addr = routerAddr(v6, "", flow, ttl)
			}
		}
		out = append(out, e)
		if e.dest {
			break
		}
	}
	return out
}

func hopsMatch(run *result.TracerouteRun, exp []expHop) bool {
	if len(run.Hops) != len(exp) {
		return false
	}
	for i, h := range run.Hops {
		e := exp[i]
		a, has := addrOf(h.IPAddress)
		if h.TTL != e.ttl || has != e.addr.IsValid() || (has && a != e.addr) || h.IsDest != e.dest {
			return false
		}
	}
	return true
}

func describeRun(r *result.TracerouteRun) string {
	s := ""
	for _, h := range r.Hops {
		s += fmt.Sprintf("%d:%v%s ", h.TTL, h.IPAddress, map[bool]string{true: "*", false: ""}[h.IsDest])
	}
	return s
}

// matchRunsToFlows finds an injective assignment of runs to flows such that each run equals the flow's
// scripted result; it returns the index of a run that cannot be matched (or -1).
func matchRunsToFlows(cands [][]int) int {
	used := map[int]bool{}
	var rec func(i int) bool
	rec = func(i int) bool {
		if i == len(cands) {
			return true
		}
		for _, f := range cands[i] {
			if !used[f] {
				used[f] = true
				if rec(i + 1) {
					return true
				}
				used[f] = false
			}
		}
		return false
	}
	if rec(0) {
		return -1
	}
	for i := range cands {
		if len(cands[i]) == 0 {
			return i
		}
	}
	return 0
}

func flowKind(key string) string {
	if len(key) >= 4 {
		return key[:4]
	}
	return key
}

func checkC11(t *testing.T, ms *MultiScenario, rec *Recorder) []Diff {
	o := RunMulti(t, ms)
	var ds []Diff
	add := func(sig, f string, a ...any) { ds = append(ds, Diff{"C11", sig, fmt.Sprintf(f, a...)}) }
	if o.Panic != "" || o.Deadlock != "" || o.Wire == nil {
		rec.Case(scenarioKey(ms), false, nil, "other:crash")
		return []Diff{{"C09", "crash", o.Panic + o.Deadlock}}
	}
	for i, err := range o.Errs {
		if err != nil {
			rec.Case(scenarioKey(ms), false, nil, "other:run-error")
			return append(worldProblems(o.World, "C11"), Diff{"C09", "run-error", fmt.Sprintf("run %d (%s) failed: %v", i, ms.Runs[i].Variant, err)})
		}
	}
	ds = append(ds, worldProblems(o.World, "C11")...)
	w := o.World
	// candidates per run
	cands := make([][]int, len(ms.Runs))
	for i, sc := range ms.Runs {
		run := o.Runs[i]
		for _, key := range w.Order {
			fs := w.flows[key]
			first := fs.probes[sc.MinTTL]
			if first == nil {
				continue
			}
			if first.Kind != sc.ProbeKind() {
				continue
			}
			if a, ok := addrOf(run.Destination.IPAddress); !ok || a != first.IP.Dst {
				continue
			}
			if sc.ProbeKind() != "icmp-echo" && (run.Source.Port != first.SPort || run.Destination.Port != first.DPort) {
				continue
			}
			exp := expectedHops(w.script(fs.idx), fs.idx, sc.IsV6(), first.IP.Dst, sc.MinTTL, sc.MaxTTL)
			if hopsMatch(run, exp) {
				cands[i] = append(cands[i], fs.idx)
			}
		}
	}
	if bad := matchRunsToFlows(cands); bad >= 0 {
		foreign := ""
		for _, h := range o.Runs[bad].Hops {
			if a, ok := addrOf(h.IPAddress); ok {
				if f, ttl, ok := decodeRouterAddr(a); ok {
					foreign += fmt.Sprintf("[hop %d answered by flow %d's router for TTL %d] ", h.TTL, f, ttl)
				}
			}
		}
		add("not-isolated", "run %d (%s %d..%d) reported %s which equals no flow's own scripted result (or two runs claim the same flow); %s", bad, ms.Runs[bad].Variant, ms.Runs[bad].MinTTL, ms.Runs[bad].MaxTTL, describeRun(o.Runs[bad]), foreign)
	}
	// identifier disjointness on the wire: (kind, src, dst, ports/echo id, per-probe id) never shared by two flows
	seen := map[string]string{}
	for _, key := range w.Order {
		fs := w.flows[key]
		for _, p := range fs.probes {
			var id string
			switch p.Kind {
			case "icmp-echo":
				id = fmt.Sprintf("echo|%s|%s|%d", p.IP.Src, p.IP.Dst, p.ICMP.EchoID())
			case "tcp-syn":
				id = fmt.Sprintf("tcp|%s|%d|%s|%d|%d|%d", p.IP.Src, p.SPort, p.IP.Dst, p.DPort, p.IP.ID, p.TCP.Seq)
			default:
				continue
			}
			if other, dup := seen[id]; dup && other != key {
				add("identifier-overlap", "flows %s and %s both use identifier %s", other, key, id)
			}
			seen[id] = key
		}
	}
	for _, pp := range o.Wire.PortProblems {
		add("source-port-not-held", "%s", pp)
	}
	paris := map[uint16]bool{}
	for i, sc := range ms.Runs {
		if sc.Variant == "tcp-paris" && o.Runs[i] != nil {
			paris[o.Runs[i].Source.Port] = true
		}
	}
	ds = append(ds, ipidBlocksOverlap(o.Wire, paris)...)
	// non-triviality: overlapping runs that each read traffic of another flow
	overlap := 0
	for i := range ms.Runs {
		for j := i + 1; j < len(ms.Runs); j++ {
			if o.StartAt[i] < o.EndAt[j] && o.StartAt[j] < o.EndAt[i] {
				overlap++
			}
		}
	}
	crossRead := 0
	for h := range o.Wire.Sources {
		flows := map[string]bool{}
		for _, e := range o.Wire.Reads(h) {
			if e.Tag.Class == "genuine" {
				flows[e.Tag.Flow] = true
			}
		}
		if len(flows) >= 2 {
			crossRead++
		}
	}
	labels := []string{fmt.Sprintf("runs:%d", len(ms.Runs))}
	for _, sc := range ms.Runs {
		labels = append(labels, "variant:"+sc.Variant)
	}
	rec.Case(scenarioKey(ms), overlap >= 1 && crossRead >= 2, map[string]any{"scenario": ms, "overlapping_pairs": overlap, "handles_reading_foreign_flows": crossRead}, labels...)
	return ds
}

func genMulti(rt *rapid.T) *MultiScenario {
	ms := &MultiScenario{}
	n := rapid.IntRange(2, 8).Draw(rt, "n_runs")
	sameTarget := rapid.Bool().Draw(rt, "same_target")
	hasSack := false
	for i := 0; i < n; i++ {
		v := oneOf(rt, fmt.Sprintf("r%d_variant", i), "icmp4", "icmp6", "udp4", "udp6", "tcp", "tcp-paris", "sack", "icmp4", "udp4", "tcp")
		sc := &Scenario{Variant: v, Strict: true}
		sc.MinTTL = rapid.IntRange(1, 3).Draw(rt, fmt.Sprintf("r%d_min", i))
		sc.MaxTTL = sc.MinTTL + rapid.IntRange(0, 7).Draw(rt, fmt.Sprintf("r%d_span", i))
		sc.TimeoutMs = oneOf(rt, fmt.Sprintf("r%d_timeout", i), 200, 400)
		sc.DelayMs = oneOf(rt, fmt.Sprintf("r%d_delay", i), 0, 1, 10)
		sc.PollMs = oneOf(rt, fmt.Sprintf("r%d_poll", i), 10, 100)
		switch {
		case v == "sack":
			hasSack = true
			sc.Target, sc.Port = "127.81.3.4", 0
		case sc.IsV6():
			sc.Target = "2001:db8:ffff::1"
			if !sameTarget {
				sc.Target = oneOf(rt, fmt.Sprintf("r%d_t6", i), v6Targets...)
			}
		default:
			sc.Target = "93.184.216.34"
			if !sameTarget {
				sc.Target = oneOf(rt, fmt.Sprintf("r%d_t4", i), v4Targets...)
			}
		}
		if v != "sack" {
			sc.Port = 443
			if !sameTarget {
				sc.Port = oneOf(rt, fmt.Sprintf("r%d_port", i), 80, 443, 33434)
			}
		}
		ms.Runs = append(ms.Runs, sc)
		ms.StartUs = append(ms.StartUs, int64(rapid.IntRange(0, 50000).Draw(rt, fmt.Sprintf("r%d_start", i))))
	}
	if hasSack {
		ms.SackAddr = "127.81.3.4"
		ms.Sack = SackCfg{Permit: true, TS: rapid.Bool().Draw(rt, "sack_ts"), ClientNxt: oneOf(rt, "isn", uint32(0), 0xffffff00, 0x7fffffff), ServerISN: 11, SynAckUs: 200}
	}
	ms.EchoBase = oneOf(rt, "echo_base", uint32(0), 0xfffc, 0xfffe, 0xffff, 0x1fffd)
	ms.PktIDBase = oneOf(rt, "pktid_base", uint32(0), 0xfff0, 0xffff, 0xfffffff8)
	ns := rapid.IntRange(2, 8).Draw(rt, "n_scripts")
	for i := 0; i < ns; i++ {
		s := FlowScript{DestDist: oneOf(rt, fmt.Sprintf("s%d_dest", i), 0, 1, 2, 3, 4, 6, 9)}
		s.Default = HopSpec{DelayUs: int64(rapid.IntRange(0, 40000).Draw(rt, fmt.Sprintf("s%d_delay", i)))}
		k := rapid.IntRange(0, 3).Draw(rt, fmt.Sprintf("s%d_nsilent", i))
		if k > 0 {
			s.Hops = map[int]HopSpec{}
			for j := 0; j < k; j++ {
				s.Hops[rapid.IntRange(1, 10).Draw(rt, fmt.Sprintf("s%d_silent%d", i, j))] = HopSpec{Silent: true}
			}
		}
		ms.Scripts = append(ms.Scripts, s)
	}
	return ms
}

func TestC11(t *testing.T) {
	rec := NewRecorder("C11", "C11", "rapid: sets of 2..8 concurrent runs (any mix of the 7 variants, same or different targets, drawn start offsets, allocator bases near 2^16 and 2^32 wrap) on one shared wire where every capture handle sees every packet; the world is keyed by the flow visible on the wire (router address = f(flow, TTL), behaviour = g(flow)); oracle: every run equals the scripted result of exactly one flow of its own kind/endpoints, distinct runs map to distinct flows, no identifier is used by two flows; non-trivial = >= 2 runs overlap in virtual time and >= 2 capture handles read genuine replies of more than one flow; default (strict) source checking")
	RunProp(t, rec, genMulti, checkC11)
}

// ---- RunTraceroute: the 3 runs + N e2e probes a single request starts ----

func TestC11Request(t *testing.T) {
	rec := NewRecorder("C11", "C11Request", "rapid: one RunTraceroute request (1..4 runs + 0..6 e2e probes, udp/icmp/tcp) over per-flow worlds; a third of the cases two or three such requests at once, each through a Traceroute object made by the plain constructor at that moment; oracle: every returned run equals the scripted result of a distinct full-range flow")
	RunProp(t, rec, func(rt *rapid.T) *Request {
		rq := &Request{}
		rq.P = ReqParams{Hostname: "93.184.216.34", Port: 443, Protocol: oneOf(rt, "proto", "udp", "icmp", "tcp"), MinTTL: 1, MaxTTL: rapid.IntRange(2, 7).Draw(rt, "max"),
			DelayMs: oneOf(rt, "delay", 0, 5), TimeoutMs: 300, Queries: rapid.IntRange(1, 4).Draw(rt, "q"), E2e: rapid.IntRange(0, 6).Draw(rt, "e2e")}
		if rq.P.Protocol != "tcp" && rapid.Bool().Draw(rt, "v6") {
			rq.P.Hostname = "2001:db8:ffff::1"
		}
		ns := rapid.IntRange(2, 6).Draw(rt, "n_scripts")
		for i := 0; i < ns; i++ {
			s := FlowScript{DestDist: oneOf(rt, fmt.Sprintf("s%d_dest", i), 0, 2, 3, 5, 8), Default: HopSpec{DelayUs: int64(rapid.IntRange(0, 50000).Draw(rt, fmt.Sprintf("s%d_delay", i)))}}
			if rapid.Bool().Draw(rt, fmt.Sprintf("s%d_hole", i)) {
				s.Hops = map[int]HopSpec{rapid.IntRange(1, 6).Draw(rt, fmt.Sprintf("s%d_holettl", i)): {Silent: true}}
			}
			rq.Scripts = append(rq.Scripts, s)
		}
		rq.EchoBase = oneOf(rt, "echo_base", uint32(0), 0xfffd)
		rq.PktIDBase = oneOf(rt, "pktid_base", uint32(0), 0xfff8)
		// a third of the cases: two or three such requests at once, each through a Traceroute object of its own
		// (what the constructor does must not disturb runs that are in flight)
		if oneOf(rt, "several_apps", false, false, true) {
			rq.Concurrent = rapid.IntRange(2, 3).Draw(rt, "n_apps")
			rq.OwnObjects = true
			rq.P.Queries = rapid.IntRange(1, 2).Draw(rt, "q_apps")
			rq.P.E2e = rapid.IntRange(0, 2).Draw(rt, "e2e_apps")
		}
		return rq
	}, func(t *testing.T, rq *Request, rec *Recorder) []Diff {
		o := RunRequest(t, rq)
		if o.Res != nil && len(o.AllRes) > 1 {
			// judge all requests as one: every run of every request is a flow of its own
			all := &result.Results{}
			for _, r := range o.AllRes {
				if r != nil {
					all.Traceroute.Runs = append(all.Traceroute.Runs, r.Traceroute.Runs...)
				}
			}
			o.Res = all
		}
		if o.Panic != "" || o.Deadlock != "" || o.Err != nil || o.Res == nil {
			rec.Case(scenarioKey(rq), false, nil, "other:failed")
			return append(worldProblems(o.World, "C11"), Diff{"C09", "run-error", fmt.Sprintf("%v %s %s", o.Err, o.Panic, o.Deadlock)})
		}
		p := rq.P
		w := o.World
		v6 := netip.MustParseAddr(p.Hostname).Is6()
		cands := make([][]int, len(o.Res.Traceroute.Runs))
		for i := range o.Res.Traceroute.Runs {
			run := &o.Res.Traceroute.Runs[i]
			for _, key := range w.Order {
				fs := w.flows[key]
				first := fs.probes[p.MinTTL]
				if first == nil {
					continue
				}
				if first.Kind != "icmp-echo" && run.Source.Port != first.SPort {
					continue
				}
				if hopsMatch(run, expectedHops(w.script(fs.idx), fs.idx, v6, first.IP.Dst, p.MinTTL, p.MaxTTL)) {
					cands[i] = append(cands[i], fs.idx)
				}
			}
		}
		ds := worldProblems(o.World, "C11")
		if !p.Paris {
			ds = append(ds, ipidBlocksOverlap(o.Wire, nil)...)
		}
		for _, pp := range o.Wire.PortProblems {
			ds = append(ds, Diff{"C11", "source-port-not-held", pp})
		}
		if bad := matchRunsToFlows(cands); bad >= 0 {
			ds = append(ds, Diff{"C11", "not-isolated", fmt.Sprintf("run %d of the request reported %s which equals no flow's own scripted result", bad, describeRun(&o.Res.Traceroute.Runs[bad]))})
		}
		rec.Case(scenarioKey(rq), p.Queries+p.E2e >= 2 && len(rq.Scripts) >= 2, rq, "protocol:"+p.Protocol)
		return ds
	})
}

// ---- allocator ----

type allocCase struct {
	Base  uint32 `json:"base"`
	Sizes []int  `json:"sizes"`
	Procs int    `json:"procs"`
}

func TestC11Alloc(t *testing.T) {
	rec := NewRecorder("C11", "C11Alloc", "rapid: concurrent callers of the packet-ID allocator (drawn block sizes 1..255, bases near 2^16 and 2^32 wrap, 2..16 real goroutines) and sequential ICMP runs for echo identifiers; oracle: the blocks {base+1..base+size} mod 2^16 are pairwise disjoint while fewer than 65536 identifiers were handed out; echo identifiers of consecutive runs are pairwise distinct; non-trivial = >= 2 goroutines and >= 8 blocks")
	RunProp(t, rec, func(rt *rapid.T) *allocCase {
		c := &allocCase{Base: oneOf(rt, "base", uint32(0), 0xff00, 0xffff, 0xfffffff0, 0x12345)}
		n := rapid.IntRange(2, 250).Draw(rt, "n")
		total := 0
		for i := 0; i < n; i++ {
			s := oneOf(rt, fmt.Sprintf("size%d", i), 1, 30, 30, 255, 64, 2)
			if total+s >= 65536 {
				break
			}
			total += s
			c.Sizes = append(c.Sizes, s)
		}
		c.Procs = rapid.IntRange(2, 16).Draw(rt, "procs")
		return c
	}, func(t *testing.T, c *allocCase, rec *Recorder) []Diff {
		packets.VerifSetPacketIDBase(c.Base)
		type blk struct {
			start uint16
			size  int
		}
		res := make([]blk, len(c.Sizes))
		var wg sync.WaitGroup
		start := make(chan struct{})
		for g := 0; g < c.Procs; g++ {
			wg.Add(1)
			go func(g int) {
				defer wg.Done()
				<-start
				// statically partitioned, tight loop: maximises the chance of two allocations overlapping in time
				for i := g; i < len(c.Sizes); i += c.Procs {
					res[i] = blk{packets.AllocPacketID(uint8(c.Sizes[i])), c.Sizes[i]}
				}
			}(g)
		}
		close(start)
		wg.Wait()
		owner := map[uint16]int{}
		var ds []Diff
		for i, b := range res {
			for k := 1; k <= b.size; k++ {
				id := b.start + uint16(k)
				if j, dup := owner[id]; dup {
					ds = append(ds, Diff{"C11", "packet-id-overlap", fmt.Sprintf("blocks %d (start %d size %d) and %d (start %d size %d) share identifier %d", j, res[j].start, res[j].size, i, b.start, b.size, id)})
					rec.Case(scenarioKey(c), true, c)
					return ds
				}
				owner[id] = i
			}
		}
		rec.Case(scenarioKey(c), c.Procs >= 2 && len(c.Sizes) >= 8, c)
		return ds
	})
}

func TestC11EchoIDs(t *testing.T) {
	rec := NewRecorder("C11", "C11EchoIDs", "enumeration: 400 consecutive ICMP runs from echo-identifier bases {0, 0xfff0, 0xffff, 0x1fff8}; oracle: echo identifiers on the wire are pairwise distinct; exhaustive over those bases")
	rec.Exhaustive = true
	RunCases(t, rec, func(yield func(*Scenario) bool) {
		for _, b := range []uint32{0, 0xfff0, 0xffff, 0x1fff8} {
			sc := &Scenario{Variant: "icmp4", Strict: true, MinTTL: 1, MaxTTL: 1, TimeoutMs: 1, DelayMs: 0, PollMs: 1, Target: "93.184.216.34", EchoBase: b, Script: FlowScript{Default: HopSpec{Silent: true}}}
			if !yield(sc) {
				return
			}
		}
	}, func(t *testing.T, sc *Scenario, rec *Recorder) []Diff {
		seen := map[uint16]int{}
		first := RunScenario(t, sc) // sets the base
		ids := []uint16{}
		grab := func(o *Outcome) {
			for _, e := range o.Wire.Sends(0) {
				if e.Probe != nil && e.Probe.ICMP != nil {
					ids = append(ids, e.Probe.ICMP.EchoID())
				}
			}
		}
		grab(first)
		for i := 1; i < 400; i++ {
			ms := &MultiScenario{Runs: []*Scenario{sc}, Scripts: []FlowScript{sc.Script}}
			// RunMulti resets the base, so run through the lower-level path without touching it
			_ = ms
			o := runNoReset(t, sc)
			grab(o)
		}
		var ds []Diff
		for i, id := range ids {
			if j, dup := seen[id]; dup {
				ds = append(ds, Diff{"C11", "echo-id-reused", fmt.Sprintf("runs %d and %d used echo identifier %d (base %#x)", j, i, id, sc.EchoBase)})
				break
			}
			seen[id] = i
		}
		rec.Case(scenarioKey(sc), len(ids) >= 300, map[string]any{"base": sc.EchoBase, "runs": len(ids)})
		return ds
	})
}

// runNoReset is RunScenario without re-seeding the identifier bases.
func runNoReset(t *testing.T, sc *Scenario) *Outcome {
	out := &Outcome{}
	world := NewNetWorld(sc.Script)
	out.World = world
	target := netip.AddrPortFrom(netip.MustParseAddr(sc.Target), uint16(sc.Port))
	synctest.Test(t, func(t *testing.T) {
		w := NewWire(world)
		out.Wire = w
		packets.SetVerifHooks(w.Hooks())
		defer packets.SetVerifHooks(nil)
		out.Run, out.Err = callEntry(context.Background(), sc, target)
	})
	return out
}

// TestC06Concurrent: probe emission under concurrency. Several runs share the process; every WriteTo call
// takes a little virtual time, so another run's goroutine gets to execute between a run's packet
// generation and the completion of its write. Half of the cases run with GOMAXPROCS(1), where goroutines
// share per-P state (pools, caches). Oracle: the buffer handed to WriteTo is unchanged when the call
// completes, and every sink's own stream of probes is well formed, in TTL order, on one flow.
func TestC06Concurrent(t *testing.T) {
	rec := NewRecorder("C06", "C06Concurrent", "rapid: 2..6 concurrent runs of any variant mix on one wire where every WriteTo takes 1..40 us of virtual time; half of the cases with GOMAXPROCS(1); oracle: the bytes handed to WriteTo are unchanged when the call completes, every sink's probes are well formed with consecutive TTLs, one flow and distinct identifiers; non-trivial = >= 2 runs overlapped in virtual time")
	RunProp(t, rec, func(rt *rapid.T) *MultiScenario {
		ms := genMulti(rt)
		if len(ms.Runs) > 6 {
			ms.Runs, ms.StartUs = ms.Runs[:6], ms.StartUs[:6]
		}
		for i := range ms.StartUs {
			ms.StartUs[i] %= 3000
		}
		ms.WriteLagUs = oneOf(rt, "write_lag_us", int64(1), 5, 40)
		ms.OneP = rapid.Bool().Draw(rt, "one_p")
		return ms
	}, func(t *testing.T, ms *MultiScenario, rec *Recorder) []Diff {
		if ms.OneP {
			defer runtime.GOMAXPROCS(runtime.GOMAXPROCS(1))
		}
		o := RunMulti(t, ms)
		if o.Panic != "" || o.Deadlock != "" || o.Wire == nil {
			rec.Case(scenarioKey(ms), false, nil, "other:crash")
			return []Diff{{"C09", "crash", o.Panic + o.Deadlock}}
		}
		var ds []Diff
		for _, m := range o.Wire.BufMutated {
			ds = append(ds, Diff{"C06", "buffer-reused-during-write", m})
		}
		for h, probes := range sinkProbes(o.Wire) {
			flow := ""
			want := 0
			ids := map[string]bool{}
			for i, p := range probes {
				if i == 0 {
					flow, want = p.FlowKey(), int(p.TTL)
				}
				if p.FlowKey() != flow {
					ds = append(ds, Diff{"C06", "flow-changed", fmt.Sprintf("sink %d: probe #%d belongs to flow %s, the run's flow is %s", h, i, p.FlowKey(), flow)})
					break
				}
				if int(p.TTL) != want {
					ds = append(ds, Diff{"C06", "ttl-order", fmt.Sprintf("sink %d: probe #%d has TTL %d, expected %d", h, i, p.TTL, want)})
					break
				}
				want++
				if ids[p.Ident()] && !(p.Kind == "tcp-syn" && p.IP.ID == 41821) {
					ds = append(ds, Diff{"C06", "ident-shared", fmt.Sprintf("sink %d: identifier %s used twice", h, p.Ident())})
				}
				ids[p.Ident()] = true
			}
		}
		for _, e := range o.Wire.Ledger {
			if e.Kind == "sink" && e.Op == "WriteTo" && e.PErr != "" {
				ds = append(ds, Diff{"C06", "malformed", fmt.Sprintf("sink %d emitted a malformed probe: %s", e.Handle, e.PErr)})
				break
			}
		}
		overlap := 0
		for i := range ms.Runs {
			for j := i + 1; j < len(ms.Runs); j++ {
				if o.StartAt[i] < o.EndAt[j] && o.StartAt[j] < o.EndAt[i] {
					overlap++
				}
			}
		}
		rec.Case(scenarioKey(ms), overlap >= 1, nil, fmt.Sprintf("one_p:%v", ms.OneP))
		return ds
	})
}

// ipidBlocksOverlap: "identifier ranges handed to concurrent runs do not overlap". For the TCP SYN variant
// (non-Paris: IP-ID = block base + TTL) the identifiers a handle put on the wire while another handle was live
// must be disjoint from that handle's, whatever the ports are. A handle is live from its first probe to its
// Close. parisPorts: source ports of runs in Paris mode (one fixed IP-ID, no block).
func ipidBlocksOverlap(w *Wire, parisPorts map[uint16]bool) []Diff {
	type span struct {
		from, to time.Duration
		ids      map[uint16]int
		ok       bool
	}
	spans := map[int]*span{}
	for _, e := range w.Ledger {
		if e.Kind != "sink" {
			continue
		}
		sp := spans[e.Handle]
		switch {
		case e.Op == "WriteTo" && e.Probe != nil && e.Err == "":
			p := e.Probe
			if sp == nil {
				sp = &span{from: e.At, to: e.At, ids: map[uint16]int{}, ok: true}
				spans[e.Handle] = sp
			}
			if p.Kind != "tcp-syn" || p.IP.V6 || parisPorts[p.SPort] {
				sp.ok = false
				continue
			}
			sp.ids[p.IP.ID] = int(p.TTL)
			sp.to = e.At
		case e.Op == "Close" && sp != nil:
			sp.to = e.At
		}
	}
	var hs []int
	for h, sp := range spans {
		if sp.ok && len(sp.ids) > 0 {
			hs = append(hs, h)
		}
	}
	sort.Ints(hs)
	var ds []Diff
	for i, a := range hs {
		for _, b := range hs[i+1:] {
			x, y := spans[a], spans[b]
			if !(x.from <= y.to && y.from <= x.to) {
				continue
			}
			for id, ttl := range x.ids {
				if ttl2, dup := y.ids[id]; dup {
					ds = append(ds, Diff{"C11", "ipid-block-overlap", fmt.Sprintf("handles %d and %d were live at the same time (%v..%v and %v..%v) and both sent IP-ID %d (TTL %d and TTL %d): the identifier blocks of two concurrent runs overlap", a, b, x.from, x.to, y.from, y.to, id, ttl, ttl2)})
					break
				}
			}
		}
	}
	return ds
}

// idSink / idSource: the smallest possible wire for a run that sends one probe and hears nothing.
type idSink struct {
	mu   *sync.Mutex
	ids  *[]uint16
	full *func() // called when the fourth identifier has been recorded
}

func (s idSink) WriteTo(buf []byte, _ netip.AddrPort) error {
	if p, err := ValidateProbe(append([]byte(nil), buf...)); err == nil && p.ICMP != nil {
		s.mu.Lock()
		*s.ids = append(*s.ids, p.ICMP.EchoID())
		n := len(*s.ids)
		f := *s.full
		s.mu.Unlock()
		if n == 4 && f != nil {
			f()
		}
	}
	return nil
}
func (idSink) Close() error { return nil }

type idSource struct{}

func (idSource) Read([]byte) (int, error) {
	time.Sleep(200 * time.Microsecond)
	return 0, os.ErrDeadlineExceeded
}
func (idSource) SetReadDeadline(time.Time) error                { return nil }
func (idSource) SetPacketFilter(packets.PacketFilterSpec) error { return nil }
func (idSource) Close() error                                   { return nil }

// TestC11EchoIDsConcurrent: identifiers handed to runs that are created at the same moment, from a fresh
// process-wide counter and from counters about to wrap. The interleaving inside the allocator is the
// scheduler's, so the state "fresh counter" is visited thousands of times.
func TestC11EchoIDsConcurrent(t *testing.T) {
	rec := NewRecorder("C11", "C11EchoIDsConcurrent", "enumeration on the real scheduler: 4 ICMP runs created at the same moment (start barrier) from an echo-identifier counter reset to {0 = a fresh process, 0xfffe, 0x1fffd}, 1200 / 200 / 200 rounds, half of them with GOMAXPROCS(2); oracle: the 4 echo identifiers put on the wire in a round are pairwise distinct; non-trivial always")
	rec.Exhaustive = true
	type idCase struct {
		Base   uint32 `json:"base"`
		Rounds int    `json:"rounds"`
	}
	RunCases(t, rec, func(yield func(*idCase) bool) {
		for _, c := range []*idCase{{0, 1200}, {0xfffe, 200}, {0x1fffd, 200}} {
			if !yield(c) {
				return
			}
		}
	}, func(t *testing.T, c *idCase, rec *Recorder) []Diff {
		reqMu.Lock()
		defer reqMu.Unlock()
		var mu sync.Mutex
		var ids []uint16
		var full func()
		incomplete := 0
		packets.SetVerifHooks(&packets.VerifHooks{
			NewSink:   func(netip.Addr) (packets.Sink, error) { return idSink{&mu, &ids, &full}, nil },
			NewSource: func() (packets.Source, error) { return idSource{}, nil },
		})
		defer packets.SetVerifHooks(nil)
		target := netip.MustParseAddr("93.184.216.34")
		var ds []Diff
		for r := 0; r < c.Rounds && len(ds) == 0; r++ {
			old := 0
			if r%2 == 1 {
				old = runtime.GOMAXPROCS(2)
			}
			icmp.VerifSetEchoIDBase(c.Base)
			// every run listens for up to 100 ms; the round ends as soon as the fourth probe is on the wire
			ctx, cancel := context.WithCancel(context.Background())
			mu.Lock()
			ids = ids[:0]
			full = cancel
			mu.Unlock()
			start := make(chan struct{})
			var wg sync.WaitGroup
			for g := 0; g < 4; g++ {
				wg.Add(1)
				go func() {
					defer wg.Done()
					<-start
					icmp.RunICMPTraceroute(ctx, icmp.Params{Target: target, ParallelParams: common.TracerouteParallelParams{
						TracerouteParams: common.TracerouteParams{MinTTL: 1, MaxTTL: 1, TracerouteTimeout: 100 * time.Millisecond, PollFrequency: time.Millisecond, SendDelay: 0}}})
				}()
			}
			close(start)
			wg.Wait()
			cancel()
			if old > 0 {
				runtime.GOMAXPROCS(old)
			}
			seen := map[uint16]bool{}
			for _, id := range ids {
				if seen[id] {
					ds = append(ds, Diff{"C11", "echo-id-shared", fmt.Sprintf("round %d from counter %#x: two of 4 runs created at the same moment put echo identifier %d on the wire (%v)", r, c.Base, id, ids)})
					break
				}
				seen[id] = true
			}
			if len(ids) != 4 {
				incomplete++ // a run that did not get to send within its budget: nothing to compare in this round
			}
		}
		rec.CaseEnumerated(incomplete < c.Rounds/2, map[string]any{"base": c.Base, "rounds": c.Rounds, "incomplete_rounds": incomplete})
		return ds
	})
}

// TestC11AllocWrap: many callers allocating at the very moment the counter crosses a multiple of 65536 (the only
// place where an allocator has anything to decide). One wrap per case, as in TestC11Alloc, meets two callers
// inside the same few nanoseconds too rarely; here every round starts a few identifiers below the wrap and
// releases all callers at once.
func TestC11AllocWrap(t *testing.T) {
	rec := NewRecorder("C11", "C11AllocWrap", "enumeration, real scheduler: 2 / 4 / 8 goroutines released together (spin barrier) allocate one block each (sizes 30, 30, 255, 1, ...) from a counter set 0..40 below a multiple of 65536 (also below 2^32), 500 rounds per goroutine count (thorough: 6000); oracle: the blocks {start+1..start+size} mod 2^16 of a round are pairwise disjoint; non-trivial = rounds in which a block began below the wrap and another at or after it")
	rec.Exhaustive = true
	type wrapCase struct {
		Procs  int `json:"goroutines"`
		Rounds int `json:"rounds"`
	}
	RunCases(t, rec, func(yield func(*wrapCase) bool) {
		for _, p := range []int{2, 4, 8} {
			n := 500
			if tier() == "thorough" {
				n = 6000
			}
			if !yield(&wrapCase{Procs: p, Rounds: envInt("VERIF_C11_WRAP_ROUNDS", n)}) {
				return
			}
		}
	}, func(t *testing.T, c *wrapCase, rec *Recorder) []Diff {
		sizes := []int{30, 30, 255, 1, 30, 64, 30, 2}
		straddled := 0
		var ds []Diff
		for r := 0; r < c.Rounds && len(ds) == 0; r++ {
			hi := []uint32{0, 1, 0x7fff, 0xffff}[r%4]
			base := hi<<16 | uint32(0xffff-r%41)
			packets.VerifSetPacketIDBase(base)
			starts := make([]uint16, c.Procs)
			var ready, goFlag atomic.Int32
			var wg sync.WaitGroup
			for g := 0; g < c.Procs; g++ {
				wg.Add(1)
				go func(g int) {
					defer wg.Done()
					ready.Add(1)
					for i := 0; goFlag.Load() == 0; i++ {
						if i%64 == 63 {
							runtime.Gosched() // the machine may have fewer free cores than goroutines
						}
					}
					starts[g] = packets.AllocPacketID(uint8(sizes[(g+r)%len(sizes)]))
				}(g)
			}
			for int(ready.Load()) < c.Procs {
				runtime.Gosched()
			}
			goFlag.Store(1)
			wg.Wait()
			owner := map[uint16]int{}
			below, after := false, false
			for g, st := range starts {
				size := sizes[(g+r)%len(sizes)]
				if st >= 0xff00 {
					below = true
				} else {
					after = true
				}
				for k := 1; k <= size && len(ds) == 0; k++ {
					id := st + uint16(k)
					if j, dup := owner[id]; dup {
						ds = append(ds, Diff{"C11", "packet-id-overlap", fmt.Sprintf("round %d (counter %#x, %d goroutines): the blocks starting at %d (size %d) and at %d (size %d) share identifier %d", r, base, c.Procs, starts[j], sizes[(j+r)%len(sizes)], st, size, id)})
					}
					owner[id] = g
				}
			}
			if below && after {
				straddled++
			}
		}
		rec.CaseEnumerated(straddled > 0, map[string]any{"case": c, "rounds_with_blocks_on_both_sides_of_the_wrap": straddled}, fmt.Sprintf("goroutines:%d", c.Procs))
		return ds
	})
}
