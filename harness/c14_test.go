package harness

// C14: no data races between sending, receiving and concurrent runs. The Go race detector is the
// invariant; the wire used here shares nothing between WriteTo and Read (no lock, channel or atomic),
// so it adds no happens-before edge of its own between the sender and the receiver goroutine.

import (
	"context"
	"encoding/binary"
	"errors"
	"fmt"
	"net"
	"net/netip"
	"os"
	"sync"
	"testing"
	"testing/synctest"
	"time"

	"github.com/DataDog/datadog-traceroute/common"
	"github.com/DataDog/datadog-traceroute/icmp"
	"github.com/DataDog/datadog-traceroute/packets"
	"github.com/DataDog/datadog-traceroute/result"
	"github.com/DataDog/datadog-traceroute/reversedns"
	"github.com/DataDog/datadog-traceroute/tcp"
	"pgregory.net/rapid"
)

type rawItem struct {
	at   time.Duration
	data []byte
}

// rawSink is only ever touched by the goroutine that sends.
type rawSink struct {
	sent      [][]byte
	callAt    []time.Time           // instant WriteTo was entered, per write
	stalls    map[int]time.Duration // write index -> how long that write blocks (a full send buffer, a slow device)
	failAt    int                   // 1-based index of the write that fails (0 = none), after blocking for failStall
	failStall time.Duration
}

var errRawWrite = errors.New("write: no buffer space available")

func (s *rawSink) WriteTo(buf []byte, _ netip.AddrPort) error {
	s.callAt = append(s.callAt, time.Now())
	s.sent = append(s.sent, append([]byte(nil), buf...))
	if d := s.stalls[len(s.sent)-1]; d > 0 {
		time.Sleep(d)
	}
	if s.failAt > 0 && len(s.sent) == s.failAt {
		if s.failStall > 0 {
			time.Sleep(s.failStall)
		}
		return errRawWrite
	}
	return nil
}
func (s *rawSink) Close() error { return nil }

// rawSource replays a pre-computed list; it is only ever touched by the goroutine that receives
// (and by the goroutine that created it, before the receiver exists).
type rawSource struct {
	stages   [][]rawItem // stage advances with every SetPacketFilter call
	stage    int
	next     int
	t0       time.Time
	deadline time.Time
	onStage  func(stage int) [][]rawItem // lets SACK compute its lists once the local port is known
	reads    int
	early    int
	readAt   []time.Time // instant each item of the last stage was returned
}

func (s *rawSource) SetReadDeadline(t time.Time) error { s.deadline = t; return nil }
func (s *rawSource) Close() error                      { return nil }
func (s *rawSource) SetPacketFilter(packets.PacketFilterSpec) error {
	s.stage++
	s.next = 0
	s.t0 = time.Now()
	return nil
}

func (s *rawSource) Read(buf []byte) (int, error) {
	s.reads++
	if s.onStage != nil && s.stages == nil {
		s.stages = s.onStage(s.stage)
	}
	for {
		now := time.Now()
		var items []rawItem
		if s.stage < len(s.stages) {
			items = s.stages[s.stage]
		}
		if s.next < len(items) && items[s.next].at <= now.Sub(s.t0) {
			it := items[s.next]
			s.next++
			if s.stage == len(s.stages)-1 {
				s.readAt = append(s.readAt, now)
			}
			return copy(buf, it.data), nil
		}
		if !s.deadline.IsZero() && !now.Before(s.deadline) {
			return 0, os.ErrDeadlineExceeded
		}
		wait := time.Hour
		if !s.deadline.IsZero() {
			wait = s.deadline.Sub(now)
		}
		if s.next < len(items) {
			if w := items[s.next].at - now.Sub(s.t0); w < wait {
				wait = w
			}
		}
		time.Sleep(wait)
	}
}

type c14Case struct {
	Variant   string  `json:"variant"` // icmp4 icmp6 udp4 udp6 sack
	MinTTL    int     `json:"min_ttl"`
	MaxTTL    int     `json:"max_ttl"`
	DelayUs   int64   `json:"delay_us"`
	TimeoutMs int     `json:"timeout_ms"`
	PollMs    int     `json:"poll_ms"`
	EchoBase  uint32  `json:"echo_base"`
	ISN       uint32  `json:"isn"`
	Offsets   []int64 `json:"offsets_us"` // per TTL: arrival of its (non-destination) reply relative to its own send instant
	Dups      []int   `json:"dups"`       // TTL indices that get a stale duplicate at t0
	RealTime  bool    `json:"real_time"`
	Port      int     `json:"port"`
	// FailWrite: the k-th probe write (1-based, 0 = none) fails after blocking for FailStallUs, while duplicates of
	// the first probe's reply keep arriving around that instant (the error path of the sender runs while the
	// receiver is matching replies)
	SackTS      bool  `json:"sack_ts,omitempty"` // sack: the SYN-ACK carries the timestamps option
	FailWrite   int   `json:"fail_write,omitempty"`
	FailStallUs int64 `json:"fail_stall_us,omitempty"`
}

func synthQuote(kind string, v6 bool, local, target netip.Addr, lport, tport uint16, echoID uint16, ttl int, isn uint32) []byte {
	ip := &IPPacket{V6: v6, Src: local, Dst: target, TTL: 1}
	switch kind {
	case "icmp":
		m := &ICMPMsg{Type: 8}
		if v6 {
			m.Type = 128
			ip.Proto = ProtoICMPv6
		} else {
			ip.Proto = ProtoICMP
			ip.ID = echoID
		}
		binary.BigEndian.PutUint16(m.Rest[0:], echoID)
		binary.BigEndian.PutUint16(m.Rest[2:], uint16(ttl))
		m.Body = []byte{byte(ttl)}
		ip.Payload = EncodeICMP(m, v6, local, target)
	case "udp":
		ip.Proto = ProtoUDP
		plen := 8
		if v6 {
			plen = 5 + ttl
		} else {
			ip.ID = 41821 + uint16(ttl)
			ip.Flags = 2
		}
		u := make([]byte, 8+plen)
		binary.BigEndian.PutUint16(u[0:], lport)
		binary.BigEndian.PutUint16(u[2:], tport)
		binary.BigEndian.PutUint16(u[4:], uint16(8+plen))
		ip.Payload = u
	case "sack":
		ip.Proto = ProtoTCP
		ip.ID = 41821
		s := &TCPSeg{Src: lport, Dst: tport, Seq: isn + uint32(ttl), Ack: 1, Flags: TCPAck | TCPPsh, Window: 1024, Payload: []byte{byte(ttl)}}
		ip.Payload = EncodeTCP(s, local, target)
	}
	return ip.Encode(EncodeOpts{})
}

var c14Mu sync.Mutex

func runC14(t *testing.T, c *c14Case) (err error, reads, sent int) {
	err, reads, sent, _, _, _ = runC14x(t, c, nil)
	return
}

// runC14x is runC14 with optional write stalls; it also returns the wire objects and the run.
func runC14x(t *testing.T, c *c14Case, stalls map[int]time.Duration) (err error, reads, sent int, sinkOut *rawSink, srcOut *rawSource, runOut *result.TracerouteRun) {
	c14Mu.Lock()
	defer c14Mu.Unlock()
	v6 := c.Variant == "icmp6" || c.Variant == "udp6"
	target := netip.MustParseAddr("93.184.216.34")
	if v6 {
		target = netip.MustParseAddr("2001:db8:ffff::1")
	}
	tport := uint16(c.Port)
	var srv *SackServer
	if c.Variant == "sack" {
		var e error
		srv, e = NewSackServer(netip.MustParseAddr("127.91.2.3"), 0, SackCfg{Permit: true, ClientNxt: c.ISN, ServerISN: 5})
		if e != nil {
			return fmt.Errorf("harness-infra: %v", e), 0, 0, nil, nil, nil
		}
		defer srv.Close()
		target, tport = srv.Addr.Addr(), srv.Addr.Port()
	}
	la, conn, e := common.LocalAddrForHost(net.IP(target.AsSlice()), 80)
	if e != nil {
		return fmt.Errorf("harness-infra: %v", e), 0, 0, nil, nil, nil
	}
	conn.Close()
	local := la.AddrPort().Addr().Unmap()
	delay := time.Duration(c.DelayUs) * time.Microsecond
	kind := map[string]string{"icmp4": "icmp", "icmp6": "icmp", "udp4": "udp", "udp6": "udp", "sack": "sack"}[c.Variant]
	build := func(lport uint16) []rawItem {
		var items []rawItem
		echo := uint16(c.EchoBase + 1)
		for _, d := range c.Dups {
			ttl := c.MinTTL + d%(c.MaxTTL-c.MinTTL+1)
			q := synthQuote(kind, v6, local, target, lport, tport, echo, ttl, c.ISN)
			items = append(items, rawItem{0, icmpError(routerAddr(v6, "", 0, ttl), local, FormSpec{}, quoteOf(q, FormSpec{}))})
		}
		for i := 0; c.MinTTL+i <= c.MaxTTL; i++ {
			ttl := c.MinTTL + i
			off := int64(0)
			if i < len(c.Offsets) {
				off = c.Offsets[i]
			}
			at := time.Duration(i)*delay + time.Duration(off)*time.Microsecond
			if at < 0 {
				at = 0
			}
			q := synthQuote(kind, v6, local, target, lport, tport, echo, ttl, c.ISN)
			items = append(items, rawItem{at, icmpError(routerAddr(v6, "", 0, ttl), local, FormSpec{}, quoteOf(q, FormSpec{}))})
		}
		if c.FailWrite > 0 {
			base := time.Duration(c.FailWrite-1) * delay
			stall := time.Duration(c.FailStallUs) * time.Microsecond
			q := synthQuote(kind, v6, local, target, lport, tport, echo, c.MinTTL, c.ISN)
			for _, off := range []time.Duration{-100 * time.Microsecond, 0, 50 * time.Microsecond, stall / 2, stall, stall + 100*time.Microsecond} {
				if at := base + off; at >= 0 {
					items = append(items, rawItem{at, icmpError(routerAddr(v6, "", 0, c.MinTTL), local, FormSpec{}, quoteOf(q, FormSpec{}))})
				}
			}
		}
		// sort by time (stable)
		for i := 1; i < len(items); i++ {
			for j := i; j > 0 && items[j].at < items[j-1].at; j-- {
				items[j], items[j-1] = items[j-1], items[j]
			}
		}
		return items
	}
	sink := &rawSink{stalls: stalls, failAt: c.FailWrite, failStall: time.Duration(c.FailStallUs) * time.Microsecond}
	src := &rawSource{}
	if c.Variant == "sack" {
		src.onStage = func(int) [][]rawItem {
			// the connection is in the accept queue by now: learn the client's port and fabricate the SYN-ACK
			srv.acceptPending(NewNetWorld(FlowScript{}), false)
			if len(srv.Remotes) == 0 {
				return [][]rawItem{nil, nil, nil}
			}
			r := srv.Remotes[len(srv.Remotes)-1]
			opts := []byte{2, 4, 5, 0xb4, 4, 2, 1, 1}
			if c.SackTS {
				// the target negotiates timestamps: the driver then carries per-connection timestamp state as well
				opts = append(opts, 8, 10, 0x01, 0x02, 0x03, 0x04, 0x0a, 0x0b, 0x0c, 0x0d, 1, 1)
			}
			synack := tcpReply(target, tport, r.Addr(), r.Port(), 5, c.ISN, TCPSyn|TCPAck, opts)
			return [][]rawItem{nil, {{0, synack}}, build(r.Port())}
		}
	} else {
		src.stages = [][]rawItem{nil, build(0)}
	}
	packets.SetVerifHooks(&packets.VerifHooks{
		NewSink:   func(netip.Addr) (packets.Sink, error) { return sink, nil },
		NewSource: func() (packets.Source, error) { return src, nil },
	})
	defer packets.SetVerifHooks(nil)
	icmp.VerifSetEchoIDBase(c.EchoBase)
	tcp.VerifSetSeqFn(nil)
	sc := &Scenario{Variant: c.Variant, Strict: false, MinTTL: c.MinTTL, MaxTTL: c.MaxTTL, TimeoutMs: c.TimeoutMs, PollMs: c.PollMs, Port: int(tport)}
	call := func() {
		// delay below a millisecond is expressed directly
		pp := parallelParams(sc)
		pp.SendDelay = delay
		switch c.Variant {
		case "icmp4", "icmp6":
			runOut, err = icmp.RunICMPTraceroute(context.Background(), icmp.Params{Target: target, ParallelParams: pp})
		case "sack":
			runOut, err = runSackWith(pp, netip.AddrPortFrom(target, tport), time.Duration(c.TimeoutMs)*time.Millisecond)
		default:
			runOut, err = callEntryUDP(target, tport, c, delay)
		}
	}
	if c.RealTime {
		call()
	} else {
		func() {
			defer func() {
				if r := recover(); r != nil {
					err = fmt.Errorf("bubble: %v", r)
				}
			}()
			synctest.Test(t, func(t *testing.T) { call() })
		}()
	}
	return err, src.reads, len(sink.sent), sink, src, runOut
}

func genC14(rt *rapid.T) *c14Case {
	c := &c14Case{Variant: oneOf(rt, "variant", "icmp4", "icmp6", "udp4", "udp6", "sack", "sack")}
	c.MinTTL = rapid.IntRange(1, 3).Draw(rt, "min")
	c.MaxTTL = c.MinTTL + rapid.IntRange(1, 12).Draw(rt, "span")
	c.RealTime = oneOf(rt, "real_time", false, false, true)
	c.DelayUs = oneOf(rt, "delay_us", int64(0), 100, 1000, 2000)
	c.TimeoutMs = oneOf(rt, "timeout_ms", 5, 20)
	c.PollMs = oneOf(rt, "poll_ms", 1, 5)
	c.EchoBase = oneOf(rt, "echo_base", uint32(0), 0xfffe, 77)
	c.ISN = oneOf(rt, "isn", uint32(1), 0xffffff00, 0x7fffffff)
	c.Port = 33434
	c.SackTS = c.Variant == "sack" && rapid.Bool().Draw(rt, "sack_ts")
	for ttl := c.MinTTL; ttl <= c.MaxTTL; ttl++ {
		// before / at / just after the send instant of the probe it answers
		c.Offsets = append(c.Offsets, oneOf(rt, fmt.Sprintf("off%d", ttl), int64(-3000), -500, -1, 0, 0, 1, 50, 700))
	}
	if oneOf(rt, "write_fails", false, false, true) {
		c.FailWrite = rapid.IntRange(1, c.MaxTTL-c.MinTTL+1).Draw(rt, "fail_write")
		c.FailStallUs = oneOf(rt, "fail_stall_us", int64(0), 200, 2000)
	}
	nd := rapid.IntRange(0, 4).Draw(rt, "n_dups")
	for i := 0; i < nd; i++ {
		c.Dups = append(c.Dups, rapid.IntRange(0, 12).Draw(rt, fmt.Sprintf("dup%d", i)))
	}
	return c
}

func TestC14(t *testing.T) {
	rec := NewRecorder("C14", "C14", "rapid schedules under the Go race detector: every parallel-capable variant (icmp4/6, udp4/6, sack) runs over a wire that shares nothing between WriteTo and Read (pre-seeded reply list owned by the receiving goroutine, send log owned by the sending goroutine), with the reply of each probe arriving 3 ms..1 us before, at, or just after its own send instant and stale duplicates queued at the start; two thirds of the cases on the virtual clock, one third on the real scheduler with millisecond parameters; oracle: zero race reports (GORACE halt_on_error); non-trivial = the run read >= 3 packets and sent >= 2 probes with at least one reply scheduled at or before its send instant")
	rec.Assumptions = append(rec.Assumptions, "built with -race; the race detector sees only the interleavings that were executed")
	RunProp(t, rec, genC14, func(t *testing.T, c *c14Case, rec *Recorder) []Diff {
		err, reads, sent := runC14(t, c)
		early := false
		for _, o := range c.Offsets {
			if o <= 0 {
				early = true
			}
		}
		rec.Case(scenarioKey(c), reads >= 3 && sent >= 2 && (early || len(c.Dups) > 0), c, "variant:"+c.Variant, fmt.Sprintf("real_time:%v", c.RealTime), fmt.Sprintf("write_fails:%v", c.FailWrite > 0))
		if err != nil && (len(err.Error()) > 13 && err.Error()[:13] == "harness-infra") {
			t.Fatalf("%v", err)
		}
		return nil // the race detector is the oracle: a report terminates the process with exit status 66
	})
}

// TestC14Fanout: concurrent whole requests, reverse-DNS fan-outs and allocator callers under the race detector.
func TestC14Fanout(t *testing.T) {
	rec := NewRecorder("C14", "C14Fanout", "rapid under the race detector: RunTraceroute (half of the cases two requests at the same time on one Traceroute object) with 2..5 concurrent runs + 0..6 e2e probes to an IPv4 or (a third) an IPv6 target over the simulated wire, a stub or the real public-IP fetcher (over scripted providers: answering, failing once, down; or as the plain constructor makes it, first used by both requests at once, with the answer already cached), reverse-DNS fan-out over 1..40 addresses with a scripted resolver, and concurrent allocator callers; oracle: zero race reports")
	RunProp(t, rec, func(rt *rapid.T) *Request {
		rq := &Request{}
		rq.P = ReqParams{Hostname: "93.184.216.34", Port: 443, Protocol: oneOf(rt, "proto", "udp", "icmp", "tcp"), MinTTL: 1, MaxTTL: rapid.IntRange(2, 6).Draw(rt, "max"),
			DelayMs: oneOf(rt, "delay", 0, 2), TimeoutMs: 60, Queries: rapid.IntRange(2, 5).Draw(rt, "q"), E2e: rapid.IntRange(0, 6).Draw(rt, "e2e"),
			ReverseDns: true, PublicIP: rapid.Bool().Draw(rt, "pubip")}
		rq.Scripts = []FlowScript{{DestDist: oneOf(rt, "dest", 0, 3, 5), Default: HopSpec{DelayUs: 2000}}, {DestDist: 4, Default: HopSpec{DelayUs: 9000}}}
		// either family: the concurrent runs of one request share whatever the family's reply decoding shares
		if oneOf(rt, "family", "v4", "v4", "v6") == "v6" {
			rq.P.Hostname = "2001:db8:ffff::1"
		}
		rq.DNSDefault = DNSScript{Names: []string{"x.example."}, DelayMs: oneOf(rt, "dns_delay", 0, 3)}
		// two requests served by one process at the same time (they share the reverse-DNS cache and the fetcher)
		if oneOf(rt, "two_requests", false, true) {
			rq.Concurrent = 2
		}
		// the caller goes on reading the document it was handed while a slow public-IP answer is still on its way
		rq.ReadAfter = true
		if rq.P.PublicIP {
			rq.Fetcher = oneOf(rt, "fetcher", "", "slow", "slow", "error", "real", "real", "plain-cached")
			if rq.Fetcher == "real" {
				// the real fetcher (one per Traceroute object, shared by its requests) over scripted providers: its
				// retry state is shared state too. Failures are not cached, so every request asks again.
				rq.Fetcher = ""
				switch oneOf(rt, "providers", "valid", "transient-then-valid", "down") {
				case "valid":
					rq.ProviderDefault = []ProviderStep{{Kind: "resp", Status: 200, Body: "203.0.113.77\n"}}
				case "transient-then-valid":
					rq.ProviderDefault = []ProviderStep{{Kind: "neterr"}, {Kind: "resp", Status: 200, Body: "203.0.113.77\n"}}
				default:
					rq.ProviderDefault = []ProviderStep{{Kind: "neterr"}}
				}
			}
		}
		// a third of the requests fail everywhere at once: every run and every e2e probe reports its error at
		// about the same instant (the error collection is shared state too)
		if oneOf(rt, "all_fail", false, false, true) {
			rq.Faults = []Fault{{Kind: "sink", Handle: -1, Op: "WriteTo", K: oneOf(rt, "fail_k", 1, 1, 2), Class: "fatal"}}
		}
		return rq
	}, func(t *testing.T, rq *Request, rec *Recorder) []Diff {
		o := RunRequest(t, rq)
		// reverse DNS fan-out outside the bubble as well (real scheduler)
		old := reversedns.LookupAddrFn
		reversedns.LookupAddrFn = func(ctx context.Context, addr string) ([]string, error) { return []string{addr + ".example."}, nil }
		var ips []net.IP
		for i := 0; i < 1+rq.P.Queries*8; i++ {
			ips = append(ips, net.IPv4(198, 18, byte(i%3), byte(i)))
		}
		reversedns.GetReverseDnsForIPs(ips)
		reversedns.LookupAddrFn = old
		rec.Case(scenarioKey(rq), (o.Err == nil || len(rq.Faults) > 0) && rq.P.Queries >= 2, rq, "protocol:"+rq.P.Protocol, fmt.Sprintf("all_fail:%v", len(rq.Faults) > 0))
		return nil
	})
}

func callEntryUDP(target netip.Addr, port uint16, c *c14Case, delay time.Duration) (*result.TracerouteRun, error) {
	u := newUDP(target, port, c, delay)
	return u.Traceroute()
}

// ---- a driver call that is still in progress when the run's deadline passes ----

type overrunCase struct {
	Engine    string `json:"engine"`
	OverrunMs int    `json:"overrun_ms"` // how long after the run's deadline the pending ReceiveProbe call returns (with a genuine reply)
	MaxTTL    int    `json:"max_ttl"`
}

type overrunDriver struct {
	mu       sync.Mutex
	parallel bool
	start    time.Time
	lateAt   time.Duration
	sent     map[uint8]bool
	calls    int
}

func (d *overrunDriver) GetDriverInfo() common.TracerouteDriverInfo {
	return common.TracerouteDriverInfo{SupportsParallel: d.parallel}
}

func (d *overrunDriver) SendProbe(ttl uint8) error {
	d.mu.Lock()
	d.sent[ttl] = true
	d.mu.Unlock()
	return nil
}

func (d *overrunDriver) ReceiveProbe(timeout time.Duration) (*common.ProbeResponse, error) {
	d.mu.Lock()
	d.calls++
	n := d.calls
	d.mu.Unlock()
	switch n {
	case 1:
		return &common.ProbeResponse{TTL: 1, IP: netip.MustParseAddr("10.0.0.1"), RTT: time.Millisecond}, nil
	case 2:
		// the receiving goroutine is held up (a handle that does not come back at its deadline, a descheduled
		// thread): the call returns late, with the reply that arrived meanwhile
		time.Sleep(time.Until(d.start.Add(d.lateAt)))
		return &common.ProbeResponse{TTL: 2, IP: netip.MustParseAddr("10.0.0.2"), RTT: 2 * time.Millisecond}, nil
	}
	time.Sleep(timeout)
	return nil, &common.ReceiveProbeNoPktError{Err: fmt.Errorf("nothing")}
}

// TestC14EngineOverrun (real scheduler, race detector): a ReceiveProbe call is still in progress when the run's
// deadline passes and returns a genuine reply 150 ms .. 1 s later. Whenever the engine hands its result to the
// caller, nobody may still be writing to it: the caller reads the returned entries for a while after the return.
func TestC14EngineOverrun(t *testing.T) {
	rec := NewRecorder("C14", "C14EngineOverrun", "enumeration on the real scheduler under the race detector: both engines with a driver whose second ReceiveProbe call is still in progress when the run's deadline (60 ms) passes and returns a genuine reply 150 / 400 / 1000 ms after it; the caller reads every entry of the returned list for as long again after the call returned; oracle: zero race reports; non-trivial always")
	rec.Exhaustive = true
	rec.Assumptions = append(rec.Assumptions, "built with -race; real time")
	RunCases(t, rec, func(yield func(*overrunCase) bool) {
		for _, eng := range []string{"parallel", "serial"} {
			for _, ov := range []int{150, 400, 1000} {
				if !yield(&overrunCase{Engine: eng, OverrunMs: ov, MaxTTL: 3}) {
					return
				}
			}
		}
	}, func(t *testing.T, c *overrunCase, rec *Recorder) []Diff {
		p := common.TracerouteParams{MinTTL: 1, MaxTTL: uint8(c.MaxTTL), TracerouteTimeout: 50 * time.Millisecond, PollFrequency: 10 * time.Millisecond, SendDelay: time.Millisecond}
		bound := p.TracerouteTimeout + time.Duration(c.MaxTTL)*p.SendDelay
		if c.Engine == "serial" {
			bound = p.TracerouteTimeout // the late call is the first TTL-2 poll: its own window ends 50 ms after that send
		}
		drv := &overrunDriver{parallel: c.Engine == "parallel", start: time.Now(), lateAt: bound + time.Duration(c.OverrunMs)*time.Millisecond, sent: map[uint8]bool{}}
		var res []*common.ProbeResponse
		if c.Engine == "parallel" {
			res, _ = common.TracerouteParallel(context.Background(), drv, common.TracerouteParallelParams{TracerouteParams: p})
		} else {
			res, _ = common.TracerouteSerial(context.Background(), drv, common.TracerouteSerialParams{TracerouteParams: p})
		}
		// the caller goes on using what it was handed
		until := time.Now().Add(time.Duration(c.OverrunMs)*time.Millisecond + 100*time.Millisecond)
		n := 0
		for time.Now().Before(until) {
			for _, r := range res {
				if r != nil {
					n += int(r.TTL)
				}
			}
			time.Sleep(time.Millisecond)
		}
		rec.CaseEnumerated(true, map[string]any{"case": c, "entries": len(res), "reads": n}, "engine:"+c.Engine)
		return nil
	})
}
