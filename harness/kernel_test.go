//go:build verif

package harness

// Checks of the two lowest-level Linux pieces against the real kernel, inside a private network namespace
// created by the test itself (no simulated wire, real clock):
//
//   TestC12KernelAttach  the drop-all / drain / attach sequence of the AF_PACKET capture handle: after
//                        SetPacketFilter has returned, the handle returns exactly the frames the filter's
//                        reference predicate accepts, whatever was queued on the socket before.
//   TestC13KernelSink    the raw IP_HDRINCL sink on an egress that is slower than the sender: every packet the
//                        kernel took is reported as sent.

import (
	"bytes"
	"context"
	"encoding/binary"
	"errors"
	"fmt"
	"net"
	"net/netip"
	"os"
	"os/exec"
	"runtime"
	"strings"
	"syscall"
	"testing"
	"time"

	"github.com/DataDog/datadog-traceroute/common"
	"github.com/DataDog/datadog-traceroute/icmp"
	"github.com/DataDog/datadog-traceroute/packets"
	"github.com/DataDog/datadog-traceroute/result"
	"github.com/DataDog/datadog-traceroute/tcp"
	"github.com/DataDog/datadog-traceroute/udp"
)

// inNetns runs fn on a goroutine whose OS thread has been moved into a fresh network namespace (loopback up,
// then the given shell commands). Sockets created by fn (on that goroutine) live in the namespace. The thread
// is never returned to the pool: it ends with the goroutine.
func inNetns(setup []string, fn func() error) error {
	done := make(chan error, 1)
	go func() {
		runtime.LockOSThread()
		if err := syscall.Unshare(syscall.CLONE_NEWNET); err != nil {
			done <- fmt.Errorf("harness-infra: unshare(CLONE_NEWNET): %v", err)
			return
		}
		for _, c := range append([]string{"ip link set lo up"}, setup...) {
			if out, err := exec.Command("/bin/sh", "-c", c).CombinedOutput(); err != nil {
				done <- fmt.Errorf("harness-infra: %s: %v: %s", c, err, strings.TrimSpace(string(out)))
				return
			}
		}
		done <- fn()
	}()
	return <-done
}

type attachCase struct {
	Cfg     filterCfg `json:"config"`
	Backlog int       `json:"backlog"` // datagrams sent between opening the handle and setting its filter
}

func pseudoFrame(ip []byte) []byte {
	f := make([]byte, 14, 14+len(ip))
	if len(ip) > 0 && ip[0]>>4 == 6 {
		binary.BigEndian.PutUint16(f[12:], 0x86dd)
	} else {
		binary.BigEndian.PutUint16(f[12:], 0x0800)
	}
	return append(f, ip...)
}

func refFor(c filterCfg, frame []byte) bool {
	switch c.Type {
	case "icmp":
		return refICMP(frame)
	case "synack":
		return refSynAck(frame)
	case "tcp":
		return refTuple(frame, c)
	case "udp":
		// the program of the UDP variant lets ICMP and UDP through ("basically it omits TCP")
		et, _ := u16(frame, 12)
		return refICMP(frame) || (et == 0x0800 && len(frame) > 23 && frame[23] == 17) || (et == 0x86dd && len(frame) > 20 && frame[20] == 17)
	}
	return false
}

func icmpEcho(id, seq uint16, payload string) []byte {
	b := make([]byte, 8+len(payload))
	b[0] = 8
	binary.BigEndian.PutUint16(b[4:], id)
	binary.BigEndian.PutUint16(b[6:], seq)
	copy(b[8:], payload)
	binary.BigEndian.PutUint16(b[2:], ^csum16(b))
	return b
}

func csum16(b []byte) uint16 {
	var s uint32
	for i := 0; i+1 < len(b); i += 2 {
		s += uint32(b[i])<<8 | uint32(b[i+1])
	}
	if len(b)%2 == 1 {
		s += uint32(b[len(b)-1]) << 8
	}
	for s>>16 != 0 {
		s = s&0xffff + s>>16
	}
	return uint16(s)
}

// readAll reads from src until nothing arrives for idle.
func readAll(src packets.Source, idle time.Duration) ([][]byte, error) {
	var out [][]byte
	buf := make([]byte, 65536)
	for {
		src.SetReadDeadline(time.Now().Add(idle))
		n, err := src.Read(buf)
		if err != nil {
			if errors.Is(err, os.ErrDeadlineExceeded) {
				return out, nil
			}
			return out, err
		}
		out = append(out, append([]byte(nil), buf[:n]...))
	}
}

func describeIP(p []byte) string {
	if len(p) < 20 || p[0]>>4 != 4 {
		return fmt.Sprintf("% x", p[:min(len(p), 40)])
	}
	x := 4 * int(p[0]&0xf)
	s := fmt.Sprintf("ipv4 proto %d %s -> %s", p[9], net.IP(p[12:16]), net.IP(p[16:20]))
	if (p[9] == 6 || p[9] == 17) && len(p) >= x+4 {
		s += fmt.Sprintf(" ports %d -> %d", binary.BigEndian.Uint16(p[x:]), binary.BigEndian.Uint16(p[x+2:]))
	}
	if p[9] == 6 && len(p) > x+13 {
		s += fmt.Sprintf(" flags %#02x", p[x+13])
	}
	if i := bytes.Index(p, []byte("stale-")); i >= 0 {
		s += " payload " + string(p[i:min(len(p), i+12)])
	}
	if i := bytes.Index(p, []byte("fresh-")); i >= 0 {
		s += " payload " + string(p[i:min(len(p), i+12)])
	}
	return s
}

func checkAttach(t *testing.T, c *attachCase, rec *Recorder) []Diff {
	var ds []Diff
	add := func(sig, f string, a ...any) { ds = append(ds, Diff{"C12", sig, fmt.Sprintf(f, a...)}) }
	queued, returned, expectSeen := 0, 0, false
	err := inNetns(nil, func() error {
		lo := netip.MustParseAddr("127.0.0.1")
		// a receiver that never reads: the datagrams are delivered (no ICMP errors), then dropped at its buffer
		hold, err := net.ListenUDP("udp4", &net.UDPAddr{IP: lo.AsSlice(), Port: 40009})
		if err != nil {
			return fmt.Errorf("harness-infra: %v", err)
		}
		defer hold.Close()
		ln, err := net.Listen("tcp4", fmt.Sprintf("127.0.0.1:%d", c.Cfg.DPort))
		if err != nil {
			return fmt.Errorf("harness-infra: %v", err)
		}
		defer ln.Close()
		udp, err := net.DialUDP("udp4", nil, &net.UDPAddr{IP: lo.AsSlice(), Port: 40009})
		if err != nil {
			return fmt.Errorf("harness-infra: %v", err)
		}
		defer udp.Close()
		ic, err := net.ListenPacket("ip4:icmp", "127.0.0.1")
		if err != nil {
			return fmt.Errorf("harness-infra: %v", err)
		}
		defer ic.Close()
		// for the UDP variant's filter the traffic to hide is TCP: segments of a connection made beforehand
		var pre net.Conn
		if c.Cfg.Type == "udp" {
			if pre, err = net.DialTimeout("tcp4", ln.Addr().String(), time.Second); err != nil {
				return fmt.Errorf("harness-infra: dial: %v", err)
			}
			defer pre.Close()
		}
		// the witness is a second, never filtered handle: what it has seen was delivered to every open handle
		witness, err := packets.NewAFPacketSource()
		if err != nil {
			return fmt.Errorf("harness-infra: witness: %v", err)
		}
		defer witness.Close()
		src, err := packets.NewAFPacketSource()
		if err != nil {
			return fmt.Errorf("harness-infra: %v", err)
		}
		defer src.Close()
		// the backlog must not satisfy the filter under test: UDP datagrams, or TCP segments for the UDP variant's filter
		for i := 0; i < c.Backlog; i++ {
			if c.Cfg.Type == "udp" {
				pre.Write([]byte(fmt.Sprintf("stale-%d", i)))
			} else {
				udp.Write([]byte(fmt.Sprintf("stale-%d", i)))
			}
		}
		seen, err := readAll(witness, 30*time.Millisecond)
		if err != nil {
			return fmt.Errorf("harness-infra: witness read: %v", err)
		}
		for _, p := range seen {
			if bytes.Contains(p, []byte("stale-")) {
				queued++
			}
		}
		if err := src.SetPacketFilter(c.Cfg.spec()); err != nil {
			add("attach-failed", "SetPacketFilter(%+v) failed with %d frames queued: %v", c.Cfg, queued, err)
			return nil
		}
		// after the filter is in place: traffic it must hide, and traffic it must show
		for i := 0; i < 5; i++ {
			if c.Cfg.Type == "udp" {
				pre.Write([]byte(fmt.Sprintf("fresh-%d", i)))
			} else {
				udp.Write([]byte(fmt.Sprintf("fresh-%d", i)))
			}
		}
		var expect func(p []byte) bool
		switch c.Cfg.Type {
		case "icmp":
			ic.WriteTo(icmpEcho(0x4242, 1, "shown"), &net.IPAddr{IP: lo.AsSlice()})
			expect = func(p []byte) bool { return len(p) > 9 && p[9] == 1 && bytes.Contains(p, []byte("shown")) }
		case "udp":
			udp.Write([]byte("shown"))
			expect = func(p []byte) bool { return len(p) > 9 && p[9] == 17 && bytes.Contains(p, []byte("shown")) }
		case "tcp", "synack":
			d := net.Dialer{LocalAddr: &net.TCPAddr{IP: lo.AsSlice(), Port: c.Cfg.SPort}, Timeout: time.Second}
			conn, err := d.Dial("tcp4", fmt.Sprintf("127.0.0.1:%d", c.Cfg.DPort))
			if err != nil {
				return fmt.Errorf("harness-infra: dial: %v", err)
			}
			defer conn.Close()
			want := byte(0x02) // the SYN of the configured tuple
			if c.Cfg.Type == "synack" {
				want = 0x12
			}
			expect = func(p []byte) bool {
				x := 4 * int(p[0]&0xf)
				return len(p) > x+13 && p[9] == 6 && p[x+13]&0x3f == want
			}
		}
		got, err := readAll(src, 150*time.Millisecond)
		if err != nil {
			add("read-failed", "Read after SetPacketFilter: %v", err)
			return nil
		}
		returned = len(got)
		for _, p := range got {
			if !refFor(c.Cfg, pseudoFrame(p)) {
				add("frame-outside-filter", "filter %+v was set with %d frames queued; Read then returned a frame the filter does not accept: %s", c.Cfg, queued, describeIP(p))
				break
			}
		}
		for _, p := range got {
			if expect(p) {
				expectSeen = true
			}
		}
		if !expectSeen {
			add("matching-frame-hidden", "filter %+v: the matching frame sent after SetPacketFilter was never returned (%d frames returned)", c.Cfg, returned)
		}
		return nil
	})
	if err != nil {
		return []Diff{{"C09", "harness-infra", err.Error()}}
	}
	bucket := "0"
	switch {
	case queued > 128:
		bucket = ">128"
	case queued > 0:
		bucket = "1..128"
	}
	rec.CaseEnumerated(queued > 0, map[string]any{"config": c.Cfg, "backlog_sent": c.Backlog, "frames_queued_before_attach": queued, "frames_returned_after_attach": returned}, "filter:"+c.Cfg.Type, "queued:"+bucket)
	return ds
}

// TestC12KernelAttach: see the head of this file.
func TestC12KernelAttach(t *testing.T) {
	rec := NewRecorder("C12", "C12KernelAttach", "enumeration on the real kernel (private network namespace, real AF_PACKET handle): filter {icmp, udp variant's, tcp tuple, syn-ack} x 0..600 (thorough: 0..2000, three port pairs) non-matching frames (datagrams; TCP segments for the udp variant's filter) queued on the handle before SetPacketFilter (counted by a second, unfiltered handle), then 5 more non-matching frames and one matching frame (echo request, datagram, the SYN / SYN-ACK of a real connection on the configured tuple); oracle: every frame Read returns after SetPacketFilter satisfies the reference predicate of the filter, and the matching frame is returned; non-trivial = at least one frame was queued before the filter was set")
	rec.Exhaustive = true
	RunCases(t, rec, func(yield func(*attachCase) bool) {
		backlogs := []int{0, 1, 40, 100, 140, 200, 600}
		ports := [][2]int{{40001, 40002}}
		if tier() == "thorough" {
			// (the loopback device shows every frame twice: 64 datagrams are 128 frames)
			backlogs = []int{0, 1, 2, 20, 40, 63, 64, 65, 100, 127, 128, 129, 140, 200, 300, 600, 2000}
			ports = [][2]int{{40001, 40002}, {0x8000, 0x7fff}, {65535, 1}}
		}
		for _, ty := range []string{"icmp", "udp", "tcp", "synack"} {
			for _, pp := range ports {
				for _, n := range backlogs {
					c := &attachCase{Cfg: filterCfg{Type: ty, Src: "127.0.0.1", Dst: "127.0.0.1", SPort: pp[0], DPort: pp[1]}, Backlog: n}
					if !yield(c) {
						return
					}
				}
			}
		}
	}, func(t *testing.T, c *attachCase, rec *Recorder) []Diff {
		ds := checkAttach(t, c, rec)
		for _, d := range ds {
			if d.Sig == "harness-infra" {
				fmt.Println(d.Msg)
				t.Fatalf("%s", d.Msg)
			}
		}
		return ds
	})
}

type sinkCase struct {
	Shape   string `json:"shape"` // "" or the tc arguments after "root" for the namespace's loopback device
	Packets int    `json:"packets"`
	V6      bool   `json:"v6,omitempty"`
}

func rawUDP4(src, dst netip.Addr, sport, dport uint16, id uint16, payload []byte) []byte {
	b := make([]byte, 28+len(payload))
	b[0], b[8], b[9] = 0x45, 64, 17
	binary.BigEndian.PutUint16(b[2:], uint16(len(b)))
	binary.BigEndian.PutUint16(b[4:], id)
	s, d := src.As4(), dst.As4()
	copy(b[12:], s[:])
	copy(b[16:], d[:])
	binary.BigEndian.PutUint16(b[10:], ^csum16(b[:20]))
	binary.BigEndian.PutUint16(b[20:], sport)
	binary.BigEndian.PutUint16(b[22:], dport)
	binary.BigEndian.PutUint16(b[24:], uint16(8+len(payload)))
	copy(b[28:], payload)
	return b
}

// loTxPackets reads the transmit counter of the loopback device of the calling thread's namespace.
func loTxPackets() (int, error) {
	b, err := os.ReadFile("/proc/thread-self/net/dev")
	if err != nil {
		return 0, err
	}
	for _, l := range strings.Split(string(b), "\n") {
		f := strings.Fields(strings.Replace(l, ":", " ", 1))
		if len(f) >= 11 && f[0] == "lo" {
			var n int
			fmt.Sscan(f[10], &n)
			return n, nil
		}
	}
	return 0, errors.New("no loopback device in /proc/thread-self/net/dev")
}

func checkSink(t *testing.T, c *sinkCase, rec *Recorder) []Diff {
	var ds []Diff
	add := func(sig, f string, a ...any) { ds = append(ds, Diff{"C13", sig, fmt.Sprintf(f, a...)}) }
	var setup []string
	if c.Shape != "" {
		setup = append(setup, "tc qdisc add dev lo root "+c.Shape)
	}
	slowest := time.Duration(0)
	onWire := 0
	err := inNetns(setup, func() error {
		lo := netip.MustParseAddr("127.0.0.1")
		hold, err := net.ListenUDP("udp4", &net.UDPAddr{IP: lo.AsSlice(), Port: 40009})
		if err != nil {
			return fmt.Errorf("harness-infra: %v", err)
		}
		defer hold.Close()
		before, err := loTxPackets()
		if err != nil {
			return fmt.Errorf("harness-infra: %v", err)
		}
		sink, err := packets.NewSinkLinux(lo)
		if err != nil {
			return fmt.Errorf("harness-infra: %v", err)
		}
		defer sink.Close()
		for i := 0; i < c.Packets; i++ {
			pkt := rawUDP4(lo, lo, 40010, 40009, uint16(i+1), []byte(fmt.Sprintf("probe-%d", i)))
			t0 := time.Now()
			err := sink.WriteTo(pkt, netip.AddrPortFrom(lo, 40009))
			if d := time.Since(t0); d > slowest {
				slowest = d
			}
			if err != nil {
				add("write-error", "WriteTo of packet #%d of %d failed on %q: %v", i, c.Packets, c.Shape, err)
				break
			}
		}
		// the device's own transmit counter (a capture handle would lose frames of such a burst itself)
		for wait := 0; wait < 400; wait++ {
			now, err := loTxPackets()
			if err != nil {
				return fmt.Errorf("harness-infra: %v", err)
			}
			onWire = now - before
			if onWire >= c.Packets {
				break
			}
			time.Sleep(25 * time.Millisecond)
		}
		return nil
	})
	if err != nil {
		return []Diff{{"C09", "harness-infra", err.Error()}}
	}
	if len(ds) == 0 && onWire < c.Packets {
		add("packets-missing", "%d WriteTo calls returned nil on %q but the device transmitted %d packets within 10 s", c.Packets, c.Shape, onWire)
	}
	rec.CaseEnumerated(slowest > 5*time.Millisecond, map[string]any{"case": c, "slowest_write_ms": float64(slowest) / 1e6, "packets_transmitted_by_device": onWire}, "shape:"+c.Shape, fmt.Sprintf("blocked:%v", slowest > 5*time.Millisecond))
	return ds
}

// TestC13KernelSink: see the head of this file.
func TestC13KernelSink(t *testing.T) {
	rec := NewRecorder("C13", "C13KernelSink", "enumeration on the real kernel (private network namespace): the raw IP_HDRINCL sink writes 50..1200 probes back to back to a loopback device that is unshaped or rate-limited (token bucket), so that the socket's send buffer fills and the write has to wait for the device; oracle: every WriteTo returns nil and the device's transmit counter grows by the number of probes; non-trivial = at least one write had to wait (> 5 ms)")
	rec.Exhaustive = true
	RunCases(t, rec, func(yield func(*sinkCase) bool) {
		for _, sh := range []string{"", "tbf rate 2mbit burst 1600 limit 10000000", "tbf rate 512kbit burst 1600 limit 10000000"} {
			ns := []int{50, 400, 1200}
			if tier() == "thorough" {
				ns = []int{1, 50, 250, 300, 400, 1200, 3000}
			}
			for _, n := range ns {
				if !yield(&sinkCase{Shape: sh, Packets: n}) {
					return
				}
			}
		}
	}, func(t *testing.T, c *sinkCase, rec *Recorder) []Diff {
		ds := checkSink(t, c, rec)
		for _, d := range ds {
			if d.Sig == "harness-infra" {
				fmt.Println(d.Msg)
				t.Fatalf("%s", d.Msg)
			}
		}
		return ds
	})
}

type sendErrCase struct {
	Variant string `json:"variant"` // udp4 | icmp4 | tcp
	FailTTL int    `json:"fail_ttl"` // the kernel refuses (EPERM) the probe that carries this TTL
	MaxTTL  int    `json:"max_ttl"`
}

// checkSendErr runs one real traceroute (real raw sink, real capture handle) in a private namespace whose packet
// filter refuses one probe: sendto() fails with EPERM for the probe with TTL FailTTL and for nothing else.
func checkSendErr(t *testing.T, c *sendErrCase, rec *Recorder) []Diff {
	var ds []Diff
	add := func(sig, f string, a ...any) { ds = append(ds, Diff{"C10", sig, fmt.Sprintf(f, a...)}) }
	setup := []string{
		"ip link add vh0 type veth peer name vh1", "ip addr add 10.9.0.1/24 dev vh0", "ip link set vh0 up", "ip link set vh1 up",
		"ip route add default dev vh0",
		fmt.Sprintf("iptables -A OUTPUT -d 10.9.7.7 -m ttl --ttl-eq %d -j DROP", c.FailTTL),
	}
	type outcome struct {
		run     *result.TracerouteRun
		err     error
		fdDelta int
		fds     string
	}
	done := make(chan outcome, 1)
	infra := make(chan error, 1)
	go func() {
		infra <- inNetns(setup, func() error {
			target := netip.MustParseAddr("10.9.7.7")
			before := countFds()
			var o outcome
			switch c.Variant {
			case "udp4":
				o.run, o.err = udp.NewUDPv4(net.IP(target.AsSlice()), 33434, 1, uint8(c.MaxTTL), 2*time.Millisecond, 150*time.Millisecond, false).Traceroute()
			case "tcp":
				o.run, o.err = tcp.NewTCPv4(net.IP(target.AsSlice()), 443, 1, uint8(c.MaxTTL), 2*time.Millisecond, 150*time.Millisecond, false, false).Traceroute()
			case "icmp4":
				o.run, o.err = icmp.RunICMPTraceroute(context.Background(), icmp.Params{Target: target, ParallelParams: common.TracerouteParallelParams{TracerouteParams: common.TracerouteParams{
					MinTTL: 1, MaxTTL: uint8(c.MaxTTL), TracerouteTimeout: 150 * time.Millisecond, PollFrequency: 20 * time.Millisecond, SendDelay: 2 * time.Millisecond}}})
			}
			o.fdDelta = countFds() - before
			if o.fdDelta > 0 {
				o.fds = listFds()
			}
			done <- o
			return nil
		})
	}()
	select {
	case o := <-done:
		<-infra
		switch {
		case o.err == nil:
			add("send-error-lost", "%s: the kernel refused the probe with TTL %d (EPERM) but the run returned a result and no error", c.Variant, c.FailTTL)
		case o.run != nil:
			add("result-and-error", "%s: the run returned both a result and the error %v", c.Variant, o.err)
		case !errors.Is(o.err, syscall.EPERM):
			add("cause-lost", "%s: the error does not wrap the cause EPERM: %v", c.Variant, o.err)
		}
		if o.fdDelta > 0 {
			add("descriptor-leak", "%s: %d descriptors more after the failed run: %s", c.Variant, o.fdDelta, o.fds)
		}
		rec.CaseEnumerated(true, map[string]any{"case": c, "err": fmt.Sprint(o.err)}, "variant:"+c.Variant)
	case err := <-infra:
		// the namespace could not be made (or the run panicked through inNetns)
		select {
		case o := <-done:
			_ = o
		default:
		}
		if err != nil {
			return []Diff{{"C09", "harness-infra", err.Error()}}
		}
	case <-time.After(10 * time.Second):
		add("run-never-returns", "%s: the kernel refused the probe with TTL %d (EPERM); 10 s later the run (timeout 150 ms, %d TTLs) has still not returned", c.Variant, c.FailTTL, c.MaxTTL)
		rec.CaseEnumerated(true, map[string]any{"case": c, "err": "never returned"}, "variant:"+c.Variant)
	}
	return ds
}

// TestC10KernelSendError: a failing send on the real kernel path (C10's fault "the k-th send fails", below the seam
// the simulated wire replaces).
func TestC10KernelSendError(t *testing.T) {
	rec := NewRecorder("C10", "C10KernelSendError", "enumeration on the real kernel (private network namespace, real raw sink and capture handle): udp, icmp and tcp-syn runs towards a target for which the namespace's packet filter refuses exactly the probe with TTL k (sendto fails with EPERM), k in {1, 2, 4}; oracle: the run returns within 10 s with no result and an error that wraps EPERM, and leaves no descriptor open; non-trivial always")
	rec.Exhaustive = true
	RunCases(t, rec, func(yield func(*sendErrCase) bool) {
		for _, v := range []string{"udp4", "icmp4", "tcp"} {
			for _, k := range []int{1, 2, 4} {
				if !yield(&sendErrCase{Variant: v, FailTTL: k, MaxTTL: 4}) {
					return
				}
			}
		}
	}, func(t *testing.T, c *sendErrCase, rec *Recorder) []Diff {
		ds := checkSendErr(t, c, rec)
		for _, d := range ds {
			if d.Sig == "harness-infra" {
				fmt.Println(d.Msg)
				t.Fatalf("%s", d.Msg)
			}
		}
		return ds
	})
}
