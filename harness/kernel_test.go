//go:build verif

package harness

// Checks of the two lowest-level Linux pieces against the real kernel, inside a private network namespace
// created by the test itself (no simulated wire, real clock):
//
//   TestC12KernelAttach  the drop-all / drain / attach sequence of the AF_PACKET capture handle: after
//                        SetPacketFilter has returned, the handle returns exactly the frames the filter's
//                        reference predicate accepts, whatever was queued on the socket before.
//   TestC13KernelSink    the raw IP_HDRINCL sink on an egress that is slower than the sender: every packet the
//                        kernel took is reported as sent.

import (
	"bytes"
	"context"
	"encoding/json"
	"net/http"
	"encoding/binary"
	"errors"
	"fmt"
	"net"
	"net/netip"
	"os"
	"os/exec"
	"runtime"
	"strings"
	"syscall"
	"testing"
	"time"

	"github.com/DataDog/datadog-traceroute/common"
	"github.com/DataDog/datadog-traceroute/icmp"
	"github.com/DataDog/datadog-traceroute/packets"
	"github.com/DataDog/datadog-traceroute/result"
	"github.com/DataDog/datadog-traceroute/server"
	"github.com/DataDog/datadog-traceroute/tcp"
	"github.com/DataDog/datadog-traceroute/udp"
	"github.com/google/gopacket/layers"
)

// inNetns runs fn on a goroutine whose OS thread has been moved into a fresh network namespace (loopback up,
// then the given shell commands). Sockets created by fn (on that goroutine) live in the namespace. The thread
// is never returned to the pool: it ends with the goroutine.
func inNetns(setup []string, fn func() error) error {
	done := make(chan error, 1)
	go func() {
		runtime.LockOSThread()
		if err := syscall.Unshare(syscall.CLONE_NEWNET); err != nil {
			done <- fmt.Errorf("harness-infra: unshare(CLONE_NEWNET): %v", err)
			return
		}
		for _, c := range append([]string{"ip link set lo up"}, setup...) {
			if out, err := exec.Command("/bin/sh", "-c", c).CombinedOutput(); err != nil {
				done <- fmt.Errorf("harness-infra: %s: %v: %s", c, err, strings.TrimSpace(string(out)))
				return
			}
		}
		done <- fn()
	}()
	return <-done
}

type attachCase struct {
	Cfg     filterCfg `json:"config"`
	Backlog int       `json:"backlog"` // datagrams sent between opening the handle and setting its filter
	// Prev: a filter the handle already carries when the backlog arrives (the SACK variant switches from the SYN-ACK
	// filter to the tuple filter on one handle); the backlog then passes Prev and must be hidden by the new filter:
	// "udp" (datagrams, then the icmp filter) or "synack" (SYN-ACKs of other connections, then the tuple filter)
	Prev string `json:"previous_filter,omitempty"`
}

func pseudoFrame(ip []byte) []byte {
	f := make([]byte, 14, 14+len(ip))
	if len(ip) > 0 && ip[0]>>4 == 6 {
		binary.BigEndian.PutUint16(f[12:], 0x86dd)
	} else {
		binary.BigEndian.PutUint16(f[12:], 0x0800)
	}
	return append(f, ip...)
}

func refFor(c filterCfg, frame []byte) bool {
	switch c.Type {
	case "icmp":
		return refICMP(frame)
	case "synack":
		return refSynAck(frame)
	case "tcp":
		return refTuple(frame, c)
	case "udp":
		// the program of the UDP variant lets ICMP and UDP through ("basically it omits TCP")
		et, _ := u16(frame, 12)
		return refICMP(frame) || (et == 0x0800 && len(frame) > 23 && frame[23] == 17) || (et == 0x86dd && len(frame) > 20 && frame[20] == 17)
	}
	return false
}

func icmpEcho(id, seq uint16, payload string) []byte {
	b := make([]byte, 8+len(payload))
	b[0] = 8
	binary.BigEndian.PutUint16(b[4:], id)
	binary.BigEndian.PutUint16(b[6:], seq)
	copy(b[8:], payload)
	binary.BigEndian.PutUint16(b[2:], ^csum16(b))
	return b
}

func csum16(b []byte) uint16 {
	var s uint32
	for i := 0; i+1 < len(b); i += 2 {
		s += uint32(b[i])<<8 | uint32(b[i+1])
	}
	if len(b)%2 == 1 {
		s += uint32(b[len(b)-1]) << 8
	}
	for s>>16 != 0 {
		s = s&0xffff + s>>16
	}
	return uint16(s)
}

// readAll reads from src until nothing arrives for idle.
func readAll(src packets.Source, idle time.Duration) ([][]byte, error) {
	var out [][]byte
	buf := make([]byte, 65536)
	for {
		src.SetReadDeadline(time.Now().Add(idle))
		n, err := src.Read(buf)
		if err != nil {
			if errors.Is(err, os.ErrDeadlineExceeded) {
				return out, nil
			}
			return out, err
		}
		out = append(out, append([]byte(nil), buf[:n]...))
	}
}

func describeIP(p []byte) string {
	if len(p) < 20 || p[0]>>4 != 4 {
		return fmt.Sprintf("% x", p[:min(len(p), 40)])
	}
	x := 4 * int(p[0]&0xf)
	s := fmt.Sprintf("ipv4 proto %d %s -> %s", p[9], net.IP(p[12:16]), net.IP(p[16:20]))
	if (p[9] == 6 || p[9] == 17) && len(p) >= x+4 {
		s += fmt.Sprintf(" ports %d -> %d", binary.BigEndian.Uint16(p[x:]), binary.BigEndian.Uint16(p[x+2:]))
	}
	if p[9] == 6 && len(p) > x+13 {
		s += fmt.Sprintf(" flags %#02x", p[x+13])
	}
	if i := bytes.Index(p, []byte("stale-")); i >= 0 {
		s += " payload " + string(p[i:min(len(p), i+12)])
	}
	if i := bytes.Index(p, []byte("fresh-")); i >= 0 {
		s += " payload " + string(p[i:min(len(p), i+12)])
	}
	return s
}

func checkAttach(t *testing.T, c *attachCase, rec *Recorder) []Diff {
	var ds []Diff
	add := func(sig, f string, a ...any) { ds = append(ds, Diff{"C12", sig, fmt.Sprintf(f, a...)}) }
	queued, returned, expectSeen := 0, 0, false
	err := inNetns(nil, func() error {
		lo := netip.MustParseAddr("127.0.0.1")
		// a receiver that never reads: the datagrams are delivered (no ICMP errors), then dropped at its buffer
		hold, err := net.ListenUDP("udp4", &net.UDPAddr{IP: lo.AsSlice(), Port: 40009})
		if err != nil {
			return fmt.Errorf("harness-infra: %v", err)
		}
		defer hold.Close()
		ln, err := net.Listen("tcp4", fmt.Sprintf("127.0.0.1:%d", c.Cfg.DPort))
		if err != nil {
			return fmt.Errorf("harness-infra: %v", err)
		}
		defer ln.Close()
		udp, err := net.DialUDP("udp4", nil, &net.UDPAddr{IP: lo.AsSlice(), Port: 40009})
		if err != nil {
			return fmt.Errorf("harness-infra: %v", err)
		}
		defer udp.Close()
		ic, err := net.ListenPacket("ip4:icmp", "127.0.0.1")
		if err != nil {
			return fmt.Errorf("harness-infra: %v", err)
		}
		defer ic.Close()
		// for the UDP variant's filter the traffic to hide is TCP: segments of a connection made beforehand
		var pre net.Conn
		if c.Cfg.Type == "udp" {
			if pre, err = net.DialTimeout("tcp4", ln.Addr().String(), time.Second); err != nil {
				return fmt.Errorf("harness-infra: dial: %v", err)
			}
			defer pre.Close()
		}
		// the witness is a second, never filtered handle: what it has seen was delivered to every open handle
		witness, err := packets.NewAFPacketSource()
		if err != nil {
			return fmt.Errorf("harness-infra: witness: %v", err)
		}
		defer witness.Close()
		src, err := packets.NewAFPacketSource()
		if err != nil {
			return fmt.Errorf("harness-infra: %v", err)
		}
		defer src.Close()
		var ln2 net.Listener
		if c.Prev != "" {
			if err := src.SetPacketFilter(filterCfg{Type: c.Prev}.spec()); err != nil {
				return fmt.Errorf("harness-infra: previous filter: %v", err)
			}
			if c.Prev == "synack" {
				if ln2, err = net.Listen("tcp4", "127.0.0.1:40077"); err != nil {
					return fmt.Errorf("harness-infra: %v", err)
				}
				defer ln2.Close()
			}
		}
		// the backlog must not satisfy the filter under test: UDP datagrams, or TCP segments for the UDP variant's filter
		for i := 0; i < c.Backlog; i++ {
			if c.Prev == "synack" {
				// the SYN-ACK of a connection between other ports ("stale" is in none of them: they are counted by flags)
				if conn, err := net.DialTimeout("tcp4", "127.0.0.1:40077", time.Second); err == nil {
					defer conn.Close()
				}
				continue
			}
			if c.Cfg.Type == "udp" {
				pre.Write([]byte(fmt.Sprintf("stale-%d", i)))
			} else {
				udp.Write([]byte(fmt.Sprintf("stale-%d", i)))
			}
		}
		seen, err := readAll(witness, 30*time.Millisecond)
		if err != nil {
			return fmt.Errorf("harness-infra: witness read: %v", err)
		}
		for _, p := range seen {
			if bytes.Contains(p, []byte("stale-")) {
				queued++
			}
			if c.Prev == "synack" && len(p) > 33 && p[9] == 6 && p[20+13]&0x12 == 0x12 {
				queued++
			}
		}
		if err := src.SetPacketFilter(c.Cfg.spec()); err != nil {
			add("attach-failed", "SetPacketFilter(%+v) failed with %d frames queued: %v", c.Cfg, queued, err)
			return nil
		}
		// after the filter is in place: traffic it must hide, and traffic it must show
		for i := 0; i < 5; i++ {
			if c.Cfg.Type == "udp" {
				pre.Write([]byte(fmt.Sprintf("fresh-%d", i)))
			} else {
				udp.Write([]byte(fmt.Sprintf("fresh-%d", i)))
			}
		}
		var expect func(p []byte) bool
		switch c.Cfg.Type {
		case "icmp":
			ic.WriteTo(icmpEcho(0x4242, 1, "shown"), &net.IPAddr{IP: lo.AsSlice()})
			expect = func(p []byte) bool { return len(p) > 9 && p[9] == 1 && bytes.Contains(p, []byte("shown")) }
		case "udp":
			udp.Write([]byte("shown"))
			expect = func(p []byte) bool { return len(p) > 9 && p[9] == 17 && bytes.Contains(p, []byte("shown")) }
		case "tcp", "synack":
			d := net.Dialer{LocalAddr: &net.TCPAddr{IP: lo.AsSlice(), Port: c.Cfg.SPort}, Timeout: time.Second}
			conn, err := d.Dial("tcp4", fmt.Sprintf("127.0.0.1:%d", c.Cfg.DPort))
			if err != nil {
				return fmt.Errorf("harness-infra: dial: %v", err)
			}
			defer conn.Close()
			want := byte(0x02) // the SYN of the configured tuple
			if c.Cfg.Type == "synack" {
				want = 0x12
			}
			expect = func(p []byte) bool {
				x := 4 * int(p[0]&0xf)
				return len(p) > x+13 && p[9] == 6 && p[x+13]&0x3f == want
			}
		}
		got, err := readAll(src, 150*time.Millisecond)
		if err != nil {
			add("read-failed", "Read after SetPacketFilter: %v", err)
			return nil
		}
		returned = len(got)
		for _, p := range got {
			if !refFor(c.Cfg, pseudoFrame(p)) {
				add("frame-outside-filter", "filter %+v was set with %d frames queued; Read then returned a frame the filter does not accept: %s", c.Cfg, queued, describeIP(p))
				break
			}
		}
		for _, p := range got {
			if expect(p) {
				expectSeen = true
			}
		}
		if !expectSeen {
			add("matching-frame-hidden", "filter %+v: the matching frame sent after SetPacketFilter was never returned (%d frames returned)", c.Cfg, returned)
		}
		return nil
	})
	if err != nil {
		return []Diff{{"C09", "harness-infra", err.Error()}}
	}
	bucket := "0"
	switch {
	case queued > 128:
		bucket = ">128"
	case queued > 0:
		bucket = "1..128"
	}
	rec.CaseEnumerated(queued > 0, map[string]any{"config": c.Cfg, "previous_filter": c.Prev, "backlog_sent": c.Backlog, "frames_queued_before_attach": queued, "frames_returned_after_attach": returned}, "filter:"+c.Cfg.Type, "queued:"+bucket)
	return ds
}

// TestC12KernelAttach: see the head of this file.
func TestC12KernelAttach(t *testing.T) {
	rec := NewRecorder("C12", "C12KernelAttach", "enumeration on the real kernel (private network namespace, real AF_PACKET handle): filter {icmp, udp variant's, tcp tuple, syn-ack} x 0..600 (thorough: 0..2000, three port pairs) non-matching frames (datagrams; TCP segments for the udp variant's filter) queued on the handle before SetPacketFilter (counted by a second, unfiltered handle), also on a handle that already carries another filter which lets those frames pass (udp variant's -> icmp, syn-ack -> tuple: the SACK variant's switch), then 5 more non-matching frames and one matching frame (echo request, datagram, the SYN / SYN-ACK of a real connection on the configured tuple); oracle: every frame Read returns after SetPacketFilter satisfies the reference predicate of the filter, and the matching frame is returned; non-trivial = at least one frame was queued before the filter was set")
	rec.Exhaustive = true
	RunCases(t, rec, func(yield func(*attachCase) bool) {
		backlogs := []int{0, 1, 40, 100, 140, 200, 600}
		ports := [][2]int{{40001, 40002}}
		if tier() == "thorough" {
			// (the loopback device shows every frame twice: 64 datagrams are 128 frames)
			backlogs = []int{0, 1, 2, 20, 40, 63, 64, 65, 100, 127, 128, 129, 140, 200, 300, 600, 2000}
			ports = [][2]int{{40001, 40002}, {0x8000, 0x7fff}, {65535, 1}}
		}
		// a handle that already carries a filter and is given another one
		for _, sw := range [][2]string{{"udp", "icmp"}, {"synack", "tcp"}} {
			for _, n := range []int{1, 3, 20} {
				c := &attachCase{Cfg: filterCfg{Type: sw[1], Src: "127.0.0.1", Dst: "127.0.0.1", SPort: 40001, DPort: 40002}, Backlog: n, Prev: sw[0]}
				if !yield(c) {
					return
				}
			}
		}
		for _, ty := range []string{"icmp", "udp", "tcp", "synack"} {
			for _, pp := range ports {
				for _, n := range backlogs {
					c := &attachCase{Cfg: filterCfg{Type: ty, Src: "127.0.0.1", Dst: "127.0.0.1", SPort: pp[0], DPort: pp[1]}, Backlog: n}
					if !yield(c) {
						return
					}
				}
			}
		}
	}, func(t *testing.T, c *attachCase, rec *Recorder) []Diff {
		ds := checkAttach(t, c, rec)
		for _, d := range ds {
			if d.Sig == "harness-infra" {
				fmt.Println(d.Msg)
				t.Fatalf("%s", d.Msg)
			}
		}
		return ds
	})
}

type sinkCase struct {
	Shape   string `json:"shape"` // "" or the tc arguments after "root" for the namespace's loopback device
	Packets int    `json:"packets"`
	V6      bool   `json:"v6,omitempty"`
}

func rawUDP4(src, dst netip.Addr, sport, dport uint16, id uint16, payload []byte) []byte {
	b := make([]byte, 28+len(payload))
	b[0], b[8], b[9] = 0x45, 64, 17
	binary.BigEndian.PutUint16(b[2:], uint16(len(b)))
	binary.BigEndian.PutUint16(b[4:], id)
	s, d := src.As4(), dst.As4()
	copy(b[12:], s[:])
	copy(b[16:], d[:])
	binary.BigEndian.PutUint16(b[10:], ^csum16(b[:20]))
	binary.BigEndian.PutUint16(b[20:], sport)
	binary.BigEndian.PutUint16(b[22:], dport)
	binary.BigEndian.PutUint16(b[24:], uint16(8+len(payload)))
	copy(b[28:], payload)
	return b
}

// loTxPackets reads the transmit counter of the loopback device of the calling thread's namespace.
func loTxPackets() (int, error) {
	b, err := os.ReadFile("/proc/thread-self/net/dev")
	if err != nil {
		return 0, err
	}
	for _, l := range strings.Split(string(b), "\n") {
		f := strings.Fields(strings.Replace(l, ":", " ", 1))
		if len(f) >= 11 && f[0] == "lo" {
			var n int
			fmt.Sscan(f[10], &n)
			return n, nil
		}
	}
	return 0, errors.New("no loopback device in /proc/thread-self/net/dev")
}

func checkSink(t *testing.T, c *sinkCase, rec *Recorder) []Diff {
	var ds []Diff
	add := func(sig, f string, a ...any) { ds = append(ds, Diff{"C13", sig, fmt.Sprintf(f, a...)}) }
	var setup []string
	if c.Shape != "" {
		setup = append(setup, "tc qdisc add dev lo root "+c.Shape)
	}
	slowest := time.Duration(0)
	onWire := 0
	stuck := false
	err := inNetns(setup, func() error {
		lo := netip.MustParseAddr("127.0.0.1")
		hold, err := net.ListenUDP("udp4", &net.UDPAddr{IP: lo.AsSlice(), Port: 40009})
		if err != nil {
			return fmt.Errorf("harness-infra: %v", err)
		}
		defer hold.Close()
		before, err := loTxPackets()
		if err != nil {
			return fmt.Errorf("harness-infra: %v", err)
		}
		sink, err := packets.NewSinkLinux(lo)
		if err != nil {
			return fmt.Errorf("harness-infra: %v", err)
		}
		defer sink.Close()
		for i := 0; i < c.Packets; i++ {
			pkt := rawUDP4(lo, lo, 40010, 40009, uint16(i+1), []byte(fmt.Sprintf("probe-%d", i)))
			t0 := time.Now()
			done := make(chan error, 1)
			go func() { done <- sink.WriteTo(pkt, netip.AddrPortFrom(lo, 40009)) }()
			var err error
			select {
			case err = <-done:
			case <-time.After(15 * time.Second):
				now, _ := loTxPackets()
				add("write-never-returns", "WriteTo of packet #%d of %d on %q has not returned after 15 s; the device has transmitted %d packets for %d writes", i, c.Packets, c.Shape, now-before, i+1)
				ds = append(ds, Diff{"C06", "probe-sent-repeatedly", fmt.Sprintf("write #%d of %d on %q never returned and the device transmitted %d packets for %d probes: a probe went out more than once", i, c.Packets, c.Shape, now-before, i+1)})
				stuck = true
				return nil
			}
			if d := time.Since(t0); d > slowest {
				slowest = d
			}
			if err != nil {
				add("write-error", "WriteTo of packet #%d of %d failed on %q: %v", i, c.Packets, c.Shape, err)
				break
			}
		}
		// the device's own transmit counter (a capture handle would lose frames of such a burst itself)
		for wait := 0; wait < 400; wait++ {
			now, err := loTxPackets()
			if err != nil {
				return fmt.Errorf("harness-infra: %v", err)
			}
			onWire = now - before
			if onWire >= c.Packets {
				break
			}
			time.Sleep(25 * time.Millisecond)
		}
		return nil
	})
	if err != nil {
		return []Diff{{"C09", "harness-infra", err.Error()}}
	}
	if len(ds) == 0 && onWire < c.Packets {
		add("packets-missing", "%d WriteTo calls returned nil on %q but the device transmitted %d packets within 10 s", c.Packets, c.Shape, onWire)
	}
	if !stuck && len(ds) == 0 {
		// nothing else transmits in this namespace: more packets than writes means a probe left more than once
		time.Sleep(50 * time.Millisecond)
		if onWire > c.Packets {
			ds = append(ds, Diff{"C06", "probe-sent-repeatedly", fmt.Sprintf("%d probes were written on %q but the device transmitted %d packets", c.Packets, c.Shape, onWire)})
		}
	}
	rec.CaseEnumerated(slowest > 5*time.Millisecond, map[string]any{"case": c, "slowest_write_ms": float64(slowest) / 1e6, "packets_transmitted_by_device": onWire}, "shape:"+c.Shape, fmt.Sprintf("blocked:%v", slowest > 5*time.Millisecond))
	return ds
}

// TestC13KernelSink: see the head of this file.
func TestC13KernelSink(t *testing.T) {
	rec := NewRecorder("C13", "C13KernelSink", "enumeration on the real kernel (private network namespace): the raw IP_HDRINCL sink writes 50..1200 probes back to back to a loopback device that is unshaped or rate-limited (token bucket), so that the socket's send buffer fills and the write has to wait for the device; oracle: every WriteTo returns nil and the device's transmit counter grows by the number of probes; non-trivial = at least one write had to wait (> 5 ms)")
	rec.Exhaustive = true
	RunCases(t, rec, func(yield func(*sinkCase) bool) {
		for _, sh := range []string{"", "tbf rate 2mbit burst 1600 limit 10000000", "tbf rate 512kbit burst 1600 limit 10000000"} {
			ns := []int{50, 400, 1200}
			if tier() == "thorough" {
				ns = []int{1, 50, 250, 300, 400, 1200, 3000}
			}
			for _, n := range ns {
				if !yield(&sinkCase{Shape: sh, Packets: n}) {
					return
				}
			}
		}
	}, func(t *testing.T, c *sinkCase, rec *Recorder) []Diff {
		ds := checkSink(t, c, rec)
		for _, d := range ds {
			if d.Sig == "harness-infra" {
				fmt.Println(d.Msg)
				t.Fatalf("%s", d.Msg)
			}
		}
		return ds
	})
}

type sendErrCase struct {
	Variant string `json:"variant"` // udp4 | icmp4 | tcp
	FailTTL int    `json:"fail_ttl"` // the kernel refuses (EPERM) the probe that carries this TTL
	MaxTTL  int    `json:"max_ttl"`
}

// checkSendErr runs one real traceroute (real raw sink, real capture handle) in a private namespace whose packet
// filter refuses one probe: sendto() fails with EPERM for the probe with TTL FailTTL and for nothing else.
func checkSendErr(t *testing.T, c *sendErrCase, rec *Recorder) []Diff {
	var ds []Diff
	add := func(sig, f string, a ...any) { ds = append(ds, Diff{"C10", sig, fmt.Sprintf(f, a...)}) }
	setup := []string{
		"ip link add vh0 type veth peer name vh1", "ip addr add 10.9.0.1/24 dev vh0", "ip link set vh0 up", "ip link set vh1 up",
		"ip route add default dev vh0",
	}
	if c.FailTTL > 0 {
		setup = append(setup, fmt.Sprintf("iptables -A OUTPUT -d 10.9.7.7 -m ttl --ttl-eq %d -j DROP", c.FailTTL))
	}
	type outcome struct {
		run     *result.TracerouteRun
		err     error
		fdDelta int
		fds     string
		elapsed time.Duration
	}
	done := make(chan outcome, 1)
	infra := make(chan error, 1)
	go func() {
		infra <- inNetns(setup, func() error {
			target := netip.MustParseAddr("10.9.7.7")
			before := countFds()
			var o outcome
			begin := time.Now()
			switch c.Variant {
			case "udp4":
				o.run, o.err = udp.NewUDPv4(net.IP(target.AsSlice()), 33434, 1, uint8(c.MaxTTL), 2*time.Millisecond, 150*time.Millisecond, false).Traceroute()
			case "tcp":
				o.run, o.err = tcp.NewTCPv4(net.IP(target.AsSlice()), 443, 1, uint8(c.MaxTTL), 2*time.Millisecond, 150*time.Millisecond, false, false).Traceroute()
			case "icmp4":
				o.run, o.err = icmp.RunICMPTraceroute(context.Background(), icmp.Params{Target: target, ParallelParams: common.TracerouteParallelParams{TracerouteParams: common.TracerouteParams{
					MinTTL: 1, MaxTTL: uint8(c.MaxTTL), TracerouteTimeout: 150 * time.Millisecond, PollFrequency: 20 * time.Millisecond, SendDelay: 2 * time.Millisecond}}})
			}
			o.elapsed = time.Since(begin)
			o.fdDelta = countFds() - before
			if o.fdDelta > 0 {
				o.fds = listFds()
			}
			done <- o
			return nil
		})
	}()
	select {
	case o := <-done:
		<-infra
		if o.elapsed > 2*time.Second {
			ds = append(ds, Diff{"C08", "run-exceeds-bound", fmt.Sprintf("%s: the run whose probe with TTL %d the kernel refused took %v (timeout 150 ms, %d TTLs)", c.Variant, c.FailTTL, o.elapsed, c.MaxTTL)})
		}
		switch {
		case c.FailTTL == 0:
			// nothing is refused: the target is on-link and never answers ARP, so the probes wait in the neighbour
			// queue below the socket; the run is an ordinary silent one and must end as such
			if o.err != nil || o.run == nil {
				add("silent-run-failed", "%s: %d probes towards an on-link address that never answers ARP: the run failed with %v", c.Variant, c.MaxTTL, o.err)
			}
		case o.err == nil:
			add("send-error-lost", "%s: the kernel refused the probe with TTL %d (EPERM) but the run returned a result and no error", c.Variant, c.FailTTL)
		case o.run != nil:
			add("result-and-error", "%s: the run returned both a result and the error %v", c.Variant, o.err)
		case !errors.Is(o.err, syscall.EPERM):
			add("cause-lost", "%s: the error does not wrap the cause EPERM: %v", c.Variant, o.err)
		}
		if o.fdDelta > 0 {
			add("descriptor-leak", "%s: %d descriptors more after the failed run: %s", c.Variant, o.fdDelta, o.fds)
		}
		rec.CaseEnumerated(true, map[string]any{"case": c, "err": fmt.Sprint(o.err)}, "variant:"+c.Variant)
	case err := <-infra:
		// the namespace could not be made (or the run panicked through inNetns)
		select {
		case o := <-done:
			_ = o
		default:
		}
		if err != nil {
			return []Diff{{"C09", "harness-infra", err.Error()}}
		}
	case <-time.After(10 * time.Second):
		add("run-never-returns", "%s: the kernel refused the probe with TTL %d (EPERM); 10 s later the run (timeout 150 ms, %d TTLs) has still not returned", c.Variant, c.FailTTL, c.MaxTTL)
		ds = append(ds, Diff{"C08", "run-exceeds-bound", fmt.Sprintf("%s: the kernel refused the probe with TTL %d (EPERM); the run (timeout 150 ms, %d TTLs, bound below 1 s) has not returned after 10 s", c.Variant, c.FailTTL, c.MaxTTL)})
		rec.CaseEnumerated(true, map[string]any{"case": c, "err": "never returned"}, "variant:"+c.Variant)
	}
	return ds
}

// TestC10KernelSendError: a failing send on the real kernel path (C10's fault "the k-th send fails", below the seam
// the simulated wire replaces).
func TestC10KernelSendError(t *testing.T) {
	rec := NewRecorder("C10", "C10KernelSendError", "enumeration on the real kernel (private network namespace, real raw sink and capture handle): udp, icmp and tcp-syn runs towards a target for which the namespace's packet filter refuses exactly the probe with TTL k (sendto fails with EPERM), k in {1, 2, 4}; oracle: the run returns within 10 s with no result and an error that wraps EPERM, and leaves no descriptor open; non-trivial always")
	rec.Exhaustive = true
	RunCases(t, rec, func(yield func(*sendErrCase) bool) {
		for _, v := range []string{"udp4", "icmp4", "tcp"} {
			for _, k := range []int{1, 2, 4} {
				if !yield(&sendErrCase{Variant: v, FailTTL: k, MaxTTL: 4}) {
					return
				}
			}
		}
	}, func(t *testing.T, c *sendErrCase, rec *Recorder) []Diff {
		ds := checkSendErr(t, c, rec)
		for _, d := range ds {
			if d.Sig == "harness-infra" {
				fmt.Println(d.Msg)
				t.Fatalf("%s", d.Msg)
			}
		}
		return ds
	})
}

// TestC08KernelSendError: the same runs judged for C08: a probe the kernel refuses must not keep the run from ending.
func TestC08KernelSendError(t *testing.T) {
	rec := NewRecorder("C08", "C08KernelSendError", "enumeration on the real kernel (private network namespace, real raw sink and capture handle): udp, icmp and tcp-syn runs (timeout 150 ms, 4 TTLs) towards a target for which the namespace's packet filter refuses exactly the probe with TTL k (sendto fails with EPERM), k in {1, 2, 4}, and udp / icmp runs of 12 / 30 / 60 probes whose packets wait in the neighbour queue (an on-link target that never answers ARP); oracle: the run returns within 2 s of real time (its bound is below 1 s); non-trivial always")
	rec.Exhaustive = true
	RunCases(t, rec, func(yield func(*sendErrCase) bool) {
		for _, v := range []string{"udp4", "icmp4", "tcp"} {
			for _, k := range []int{1, 2, 4} {
				if !yield(&sendErrCase{Variant: v, FailTTL: k, MaxTTL: 4}) {
					return
				}
			}
		}
		// many probes held below the socket (the on-link target never answers ARP): sending must not wait for them
		for _, v := range []string{"udp4", "icmp4"} {
			for _, n := range []int{12, 30, 60} {
				if !yield(&sendErrCase{Variant: v, FailTTL: 0, MaxTTL: n}) {
					return
				}
			}
		}
	}, func(t *testing.T, c *sendErrCase, rec *Recorder) []Diff {
		ds := checkSendErr(t, c, rec)
		for _, d := range ds {
			if d.Sig == "harness-infra" {
				fmt.Println(d.Msg)
				t.Fatalf("%s", d.Msg)
			}
		}
		return ds
	})
}

// ---- frames as the real capture handle delivers them (C09, C07) ----

// loInjector writes raw Ethernet frames to the namespace's loopback device through a packet socket of its own, so
// that IP headers can say anything (a raw IP socket would correct the length and checksum fields).
type loInjector struct{ fd int }

func newLoInjector() (*loInjector, error) {
	fd, err := syscall.Socket(syscall.AF_PACKET, syscall.SOCK_RAW, int(htons16(syscall.ETH_P_ALL)))
	if err != nil {
		return nil, err
	}
	return &loInjector{fd}, nil
}

func htons16(v uint16) uint16 { return v<<8 | v>>8 }

func (l *loInjector) send(ip []byte) error { return l.sendMAC(ip, nil, nil) }

// sendMAC writes the packet in a frame with the given destination and source MAC addresses (nil: all zero, as on lo).
func (l *loInjector) sendMAC(ip, dst, src []byte) error {
	ifi, err := net.InterfaceByName("lo")
	if err != nil {
		return err
	}
	frame := make([]byte, 14, 14+len(ip))
	copy(frame[0:6], dst)
	copy(frame[6:12], src)
	et := uint16(0x0800)
	if len(ip) > 0 && ip[0]>>4 == 6 {
		et = 0x86dd
	}
	binary.BigEndian.PutUint16(frame[12:], et)
	frame = append(frame, ip...)
	return syscall.Sendto(l.fd, frame, 0, &syscall.SockaddrLinklayer{Protocol: htons16(et), Ifindex: ifi.Index, Halen: 6})
}

func (l *loInjector) close() { syscall.Close(l.fd) }

// sendRaw writes a frame with an arbitrary EtherType (ARP, LLDP, ...) and payload.
func (l *loInjector) sendRaw(ethertype uint16, payload []byte) error {
	ifi, err := net.InterfaceByName("lo")
	if err != nil {
		return err
	}
	frame := make([]byte, 14, 14+len(payload))
	for i := 0; i < 6; i++ {
		frame[i] = 0xff
	}
	binary.BigEndian.PutUint16(frame[12:], ethertype)
	frame = append(frame, payload...)
	return syscall.Sendto(l.fd, frame, 0, &syscall.SockaddrLinklayer{Protocol: htons16(ethertype), Ifindex: ifi.Index, Halen: 6})
}

type frameLenCase struct {
	Captured int  `json:"ip_bytes_on_the_wire"` // length of the IP packet in the frame
	Claimed  int  `json:"total_length_field"`
	V6       bool `json:"v6,omitempty"`
	// Nibble > 0: the version nibble of the IP header is set to this value (the frame keeps the EtherType of its family)
	Nibble int `json:"version_nibble,omitempty"`
}

func hostileICMP(c *frameLenCase) []byte {
	n := c.Captured
	if c.V6 {
		if n < 40 {
			n = 40
		}
		b := make([]byte, n)
		b[0], b[6], b[7] = 0x60, 58, 64
		binary.BigEndian.PutUint16(b[4:], uint16(c.Claimed))
		b[23], b[39] = 1, 1 // ::1 -> ::1
		if n > 40 {
			b[40] = 129 // echo reply
		}
		return b
	}
	if n < 20 {
		n = 20
	}
	b := make([]byte, n)
	b[0], b[8], b[9] = 0x45, 64, 1
	binary.BigEndian.PutUint16(b[2:], uint16(c.Claimed))
	copy(b[12:], []byte{127, 0, 0, 1, 127, 0, 0, 1})
	binary.BigEndian.PutUint16(b[10:], ^csum16(b[:20]))
	return b
}

// TestC09KernelFrames: hostile length fields and frame sizes around the drivers' 1024-byte read buffer, delivered
// by the real capture handle (Ethernet header stripping included, which a simulated handle never runs).
func TestC09KernelFrames(t *testing.T) {
	rec := NewRecorder("C09", "C09KernelFrames", "enumeration on the real kernel (private network namespace): ICMP frames written to the loopback device through a packet socket with IP packet sizes {20, 28, 60, 996..1040, 1500, 4000} x total-length fields {0, 19, 20, size-1, size, size+1, size+14, 1010, 1011, 1024, 1025, 65535} (IPv4 and IPv6 payload-length analogues), and version nibbles {1, 4, 5, 6, 7, 15} under either EtherType, read through the real AF_PACKET handle with the ICMP filter into a 1024-byte buffer by packets.ReadAndParse; oracle: no panic, and every outcome is a parsed packet or a retryable error (never a fatal one); non-trivial = the length field disagrees with the frame or the frame exceeds the buffer")
	rec.Exhaustive = true
	var cases []*frameLenCase
	sizes := []int{20, 28, 60, 1500, 4000}
	for s := 996; s <= 1040; s++ {
		sizes = append(sizes, s)
	}
	for _, v6 := range []bool{false, true} {
		for _, s := range sizes {
			for _, cl := range []int{0, 19, 20, s - 1, s, s + 1, s + 14, 1010, 1011, 1024, 1025, 65535} {
				if cl < 0 || cl > 65535 {
					continue
				}
				cases = append(cases, &frameLenCase{Captured: s, Claimed: cl, V6: v6})
			}
		}
	}
	// the filters look at the EtherType and the protocol byte, never at the version nibble
	for _, v6 := range []bool{false, true} {
		for _, nib := range []int{1, 4, 5, 6, 7, 15} {
			for _, s := range []int{28, 48, 60, 1100} {
				cases = append(cases, &frameLenCase{Captured: s, Claimed: s, V6: v6, Nibble: nib})
			}
		}
	}
	defer rec.Flush()
	if replayIfRequested(t, rec, func(t *testing.T, c *frameLenCase, rec *Recorder) []Diff { return checkFrameLens(t, []*frameLenCase{c}, rec) }) {
		return
	}
	ds := filterDiffs("C09", checkFrameLens(t, cases, rec), rec)
	for _, d := range ds {
		t.Errorf("%s", d)
	}
}

func checkFrameLens(t *testing.T, cases []*frameLenCase, rec *Recorder) []Diff {
	var ds []Diff
	err := inNetns(nil, func() error {
		src, err := packets.NewAFPacketSource()
		if err != nil {
			return fmt.Errorf("harness-infra: %v", err)
		}
		defer src.Close()
		if err := src.SetPacketFilter(packets.PacketFilterSpec{FilterType: packets.FilterTypeICMP}); err != nil {
			return fmt.Errorf("harness-infra: %v", err)
		}
		inj, err := newLoInjector()
		if err != nil {
			return fmt.Errorf("harness-infra: %v", err)
		}
		defer inj.close()
		parser := packets.NewFrameParser()
		buf := make([]byte, 1024)
		for _, c := range cases {
			pkt := hostileICMP(c)
			et := uint16(0x0800)
			if c.V6 {
				et = 0x86dd
			}
			if c.Nibble > 0 {
				pkt[0] = byte(c.Nibble)<<4 | pkt[0]&0x0f
			}
			if err := inj.sendRaw(et, pkt); err != nil {
				return fmt.Errorf("harness-infra: inject: %v", err)
			}
			// the frame shows up once or twice (outgoing and looped back): read until the handle is quiet
			for {
				src.SetReadDeadline(time.Now().Add(5 * time.Millisecond))
				var perr error
				panicked := ""
				func() {
					defer func() {
						if r := recover(); r != nil {
							panicked = fmt.Sprint(r)
						}
					}()
					perr = packets.ReadAndParse(src, buf, parser)
				}()
				if panicked != "" {
					ds = append(ds, Diff{"C09", "crash", fmt.Sprintf("reading a frame with %d bytes of IP packet whose length field says %d (v6=%v) through the real capture handle panicked: %s", len(pkt), c.Claimed, c.V6, panicked)})
					writeFailure("C09", t.Name(), c, ds)
					rec.Violations++
					return nil
				}
				var none *common.ReceiveProbeNoPktError
				if errors.As(perr, &none) {
					break
				}
				if perr != nil && !common.CheckProbeRetryable("ReadAndParse", perr) {
					ds = append(ds, Diff{"C09", "fatal-on-hostile-frame", fmt.Sprintf("a frame with %d bytes of IP packet whose length field says %d (v6=%v) made ReadAndParse return a fatal error: %v", len(pkt), c.Claimed, c.V6, perr)})
					writeFailure("C09", t.Name(), c, ds)
					rec.Violations++
					return nil
				}
			}
			rec.CaseEnumerated(c.Claimed != len(pkt) || len(pkt) > 1010 || c.Nibble > 0, nil, fmt.Sprintf("v6:%v", c.V6))
		}
		return nil
	})
	if err != nil {
		fmt.Println(err)
		t.Fatalf("%v", err)
	}
	return ds
}

// TestC07KernelBurst: replies that reach the real capture handle in a burst, before the receiver reads for the first
// time (the parallel engine only starts reading once its first probe is out, and may be descheduled at any time),
// are all there when it does read: what the engine is given must not depend on when it reads.
func TestC07KernelBurst(t *testing.T) {
	rec := NewRecorder("C07", "C07KernelBurst", "enumeration on the real kernel (private network namespace, real AF_PACKET handle with the ICMP filter): bursts of 1, 10, 30, 60 matching frames (as many replies as a 30-TTL run with duplicates can have in flight) written before the first read; oracle: every frame of the burst is returned by the reads that follow; non-trivial = burst >= 10")
	rec.Exhaustive = true
	type burst struct {
		N int `json:"frames"`
	}
	RunCases(t, rec, func(yield func(*burst) bool) {
		for _, n := range []int{1, 10, 30, 60} {
			if !yield(&burst{n}) {
				return
			}
		}
	}, func(t *testing.T, c *burst, rec *Recorder) []Diff {
		var ds []Diff
		got := 0
		err := inNetns(nil, func() error {
			src, err := packets.NewAFPacketSource()
			if err != nil {
				return fmt.Errorf("harness-infra: %v", err)
			}
			defer src.Close()
			if err := src.SetPacketFilter(packets.PacketFilterSpec{FilterType: packets.FilterTypeICMP}); err != nil {
				return fmt.Errorf("harness-infra: %v", err)
			}
			inj, err := newLoInjector()
			if err != nil {
				return fmt.Errorf("harness-infra: %v", err)
			}
			defer inj.close()
			for i := 0; i < c.N; i++ {
				p := hostileICMP(&frameLenCase{Captured: 56, Claimed: 56})
				binary.BigEndian.PutUint16(p[4:], uint16(i+1)) // IP ID numbers the frame
				binary.BigEndian.PutUint16(p[10:], 0)
				binary.BigEndian.PutUint16(p[10:], ^csum16(p[:20]))
				if err := inj.send(p); err != nil {
					return fmt.Errorf("harness-infra: inject: %v", err)
				}
			}
			time.Sleep(20 * time.Millisecond)
			frames, err := readAll(src, 100*time.Millisecond)
			if err != nil {
				return fmt.Errorf("harness-infra: read: %v", err)
			}
			ids := map[uint16]bool{}
			for _, f := range frames {
				if len(f) >= 20 {
					ids[binary.BigEndian.Uint16(f[4:])] = true
				}
			}
			for i := 1; i <= c.N; i++ {
				if ids[uint16(i)] {
					got++
				}
			}
			return nil
		})
		if err != nil {
			fmt.Println(err)
			t.Fatalf("%v", err)
		}
		if got < c.N {
			ds = append(ds, Diff{"C07", "burst-lost", fmt.Sprintf("%d matching frames reached the capture handle before the first read; the reads that followed returned %d of them", c.N, got)})
		}
		rec.CaseEnumerated(c.N >= 10, map[string]any{"frames": c.N, "returned": got}, fmt.Sprintf("burst:%d", c.N))
		return ds
	})
}

// TestC10KernelFilterNoMem: the kernel refuses to install the capture filter (socket option memory exhausted,
// net.core.optmem_max of the namespace): the run must fail with that cause, not go on behind whatever filter is
// in place. For every limit the outcome is either an error that wraps ENOMEM or a run that works.
func TestC10KernelFilterNoMem(t *testing.T) {
	rec := NewRecorder("C10", "C10KernelFilterNoMem", "enumeration on the real kernel (private network namespace): udp and icmp runs to the loopback address (which answers) with net.core.optmem_max in {0, 64, 100, 144, 160, 200, 300, 600, 131072}, so that attaching the first, the second or no capture filter program fails with ENOMEM; oracle: the run either returns no result and an error wrapping ENOMEM, or a result whose last hop is the destination (as the unrestricted control run does), and leaves no descriptor open; non-trivial = the filter could not be installed")
	rec.Exhaustive = true
	type memCase struct {
		Variant string `json:"variant"`
		OptMem  int    `json:"optmem_max"`
	}
	RunCases(t, rec, func(yield func(*memCase) bool) {
		for _, v := range []string{"udp4", "icmp4"} {
			for _, m := range []int{131072, 0, 64, 100, 144, 160, 200, 300, 600} {
				if !yield(&memCase{v, m}) {
					return
				}
			}
		}
	}, func(t *testing.T, c *memCase, rec *Recorder) []Diff {
		var ds []Diff
		var run *result.TracerouteRun
		var rerr error
		fdDelta := 0
		err := inNetns([]string{fmt.Sprintf("sysctl -qw net.core.optmem_max=%d", c.OptMem)}, func() error {
			target := netip.MustParseAddr("127.0.0.1")
			before := countFds()
			switch c.Variant {
			case "udp4":
				run, rerr = udp.NewUDPv4(net.IP(target.AsSlice()), 33434, 1, 3, 2*time.Millisecond, 200*time.Millisecond, false).Traceroute()
			case "icmp4":
				run, rerr = icmp.RunICMPTraceroute(context.Background(), icmp.Params{Target: target, ParallelParams: common.TracerouteParallelParams{TracerouteParams: common.TracerouteParams{
					MinTTL: 1, MaxTTL: 3, TracerouteTimeout: 200 * time.Millisecond, PollFrequency: 20 * time.Millisecond, SendDelay: 2 * time.Millisecond}}})
			}
			fdDelta = countFds() - before
			return nil
		})
		if err != nil {
			fmt.Println(err)
			t.Fatalf("%v", err)
		}
		refused := false
		switch {
		case rerr != nil && run != nil:
			ds = append(ds, Diff{"C10", "result-and-error", fmt.Sprintf("%s optmem_max=%d: both a result and the error %v", c.Variant, c.OptMem, rerr)})
		case rerr != nil:
			refused = errors.Is(rerr, syscall.ENOMEM)
			if !refused {
				ds = append(ds, Diff{"C10", "cause-lost", fmt.Sprintf("%s optmem_max=%d: the run failed with %v, which does not wrap ENOMEM", c.Variant, c.OptMem, rerr)})
			}
		default:
			last := run.Hops[len(run.Hops)-1]
			if last == nil || !last.IsDest {
				ds = append(ds, Diff{"C10", "failure-swallowed", fmt.Sprintf("%s optmem_max=%d: the run reports success but never saw the destination that answers the control run on the same path (hops %d, last %+v): it went on behind a capture filter that could not be installed", c.Variant, c.OptMem, len(run.Hops), last)})
			}
		}
		if fdDelta > 0 {
			ds = append(ds, Diff{"C10", "descriptor-leak", fmt.Sprintf("%s optmem_max=%d: %d socket descriptors more after the run: %s", c.Variant, c.OptMem, fdDelta, listFds())})
		}
		rec.CaseEnumerated(refused, map[string]any{"case": c, "err": fmt.Sprint(rerr)}, "variant:"+c.Variant, fmt.Sprintf("filter_refused:%v", refused))
		return ds
	})
}

// TestC06KernelSink: the same writes judged for C06: every probe leaves exactly once, also when the socket's send
// buffer is full and the write has to be retried.
func TestC06KernelSink(t *testing.T) {
	rec := NewRecorder("C06", "C06KernelSink", "enumeration on the real kernel (private network namespace): the raw sink writes 50..1200 distinct probes back to back to a loopback device that is unshaped or rate-limited (token bucket: the send buffer fills, sendto reports EAGAIN and is retried); oracle: every write returns and the device transmits exactly one packet per probe; non-trivial = at least one write had to wait (> 5 ms)")
	rec.Exhaustive = true
	RunCases(t, rec, func(yield func(*sinkCase) bool) {
		for _, sh := range []string{"", "tbf rate 2mbit burst 1600 limit 10000000"} {
			for _, n := range []int{50, 400, 1200} {
				if !yield(&sinkCase{Shape: sh, Packets: n}) {
					return
				}
			}
		}
	}, func(t *testing.T, c *sinkCase, rec *Recorder) []Diff {
		ds := checkSink(t, c, rec)
		for _, d := range ds {
			if d.Sig == "harness-infra" {
				fmt.Println(d.Msg)
				t.Fatalf("%s", d.Msg)
			}
		}
		return ds
	})
}

// ---- what the real capture handle hands to the parsers (C01, C04) ----

type readCase struct {
	Name   string `json:"name"`
	Frames []struct {
		IPLen int `json:"ip_bytes"` // bytes of IP packet present in the frame
		Claim int `json:"total_length_field"`
		Pad   int `json:"padding"` // zero bytes after the IP packet (Ethernet minimum-size padding)
	} `json:"frames"`
}

// TestC01KernelReadExact: a hop must rest on a frame that arrived. The capture handle hands each frame to the parsers
// as it arrived: the bytes after the link header, nothing left over from an earlier (longer) frame.
func TestC01KernelReadExact(t *testing.T) {
	rec := NewRecorder("C01", "C01KernelReadExact", "enumeration on the real kernel (private network namespace, real AF_PACKET handle, ICMP filter, 1024-byte read buffer): sequences of ICMP frames of sizes long -> short -> shorter -> long (28..1200 bytes of IP packet), with length fields that agree, claim more than arrived, or less, and with Ethernet padding; oracle: every Read returns exactly the bytes of that frame after the link header (up to the buffer size), never bytes of an earlier frame; non-trivial = a frame shorter than its predecessor")
	rec.Exhaustive = true
	type seqCase struct {
		Sizes  []int `json:"ip_bytes"`
		Claims []int `json:"total_length_fields"` // 0 = agrees with the size
		Pads   []int `json:"padding"`
	}
	RunCases(t, rec, func(yield func(*seqCase) bool) {
		for _, c := range []*seqCase{
			{Sizes: []int{96, 28, 28, 96}, Claims: []int{0, 0, 96, 0}, Pads: []int{0, 0, 0, 0}},
			{Sizes: []int{600, 56, 28, 1200, 40}, Claims: []int{0, 600, 56, 0, 1200}, Pads: []int{0, 0, 0, 0, 0}},
			{Sizes: []int{96, 28, 40, 29}, Claims: []int{0, 0, 0, 0}, Pads: []int{0, 18, 6, 17}},
			{Sizes: []int{1200, 1010, 1011, 28}, Claims: []int{0, 0, 0, 1011}, Pads: []int{0, 0, 0, 0}},
			{Sizes: []int{200, 48}, Claims: []int{0, 200}, Pads: []int{0, 12}},
		} {
			if !yield(c) {
				return
			}
		}
	}, func(t *testing.T, c *seqCase, rec *Recorder) []Diff {
		var ds []Diff
		shorter := false
		err := inNetns(nil, func() error {
			src, err := packets.NewAFPacketSource()
			if err != nil {
				return fmt.Errorf("harness-infra: %v", err)
			}
			defer src.Close()
			if err := src.SetPacketFilter(packets.PacketFilterSpec{FilterType: packets.FilterTypeICMP}); err != nil {
				return fmt.Errorf("harness-infra: %v", err)
			}
			inj, err := newLoInjector()
			if err != nil {
				return fmt.Errorf("harness-infra: %v", err)
			}
			defer inj.close()
			buf := make([]byte, 1024)
			for i, n := range c.Sizes {
				claim := c.Claims[i]
				if claim == 0 {
					claim = n
				}
				pkt := hostileICMP(&frameLenCase{Captured: n, Claimed: claim})
				for j := 20; j < len(pkt); j++ {
					pkt[j] = byte(0x40 + i) // every frame has a filling of its own
				}
				if i > 0 && n < c.Sizes[i-1] {
					shorter = true
				}
				wire := append(append([]byte(nil), pkt...), make([]byte, c.Pads[i])...)
				if err := inj.send(wire); err != nil {
					return fmt.Errorf("harness-infra: inject: %v", err)
				}
				want := wire
				if len(want) > len(buf)-14 {
					want = want[:len(buf)-14]
				}
				for k := 0; ; k++ {
					src.SetReadDeadline(time.Now().Add(20 * time.Millisecond))
					m, err := src.Read(buf)
					if err != nil {
						if k == 0 {
							ds = append(ds, Diff{"C01", "frame-not-delivered", fmt.Sprintf("frame #%d (%d bytes of IP packet, length field %d, %d bytes of padding) was not returned by Read: %v", i, n, claim, c.Pads[i], err)})
						}
						break
					}
					if !bytes.Equal(buf[:m], want) {
						ds = append(ds, Diff{"C01", "read-returns-other-bytes", fmt.Sprintf("frame #%d carried %d bytes after the link header (IP packet %d, length field %d, padding %d); Read returned %d bytes%s", i, len(wire), n, claim, c.Pads[i], m, staleNote(buf[:m], want, i))})
						break
					}
				}
				if len(ds) > 0 {
					return nil
				}
			}
			return nil
		})
		if err != nil {
			fmt.Println(err)
			t.Fatalf("%v", err)
		}
		rec.CaseEnumerated(shorter, c, "frames:"+fmt.Sprint(len(c.Sizes)))
		return ds
	})
}

func staleNote(got, want []byte, i int) string {
	if len(got) > len(want) && bytes.Equal(got[:len(want)], want) {
		tail := got[len(want):]
		for j := 0; j < i; j++ {
			if bytes.IndexByte(tail, byte(0x40+j)) >= 0 {
				return fmt.Sprintf(": the frame followed by %d bytes that belong to frame #%d, read earlier", len(tail), j)
			}
		}
		return fmt.Sprintf(": the frame followed by %d bytes that did not arrive with it", len(tail))
	}
	return ""
}

// TestC04KernelPaddedReplies: the target's proofs of arrival are the shortest packets there are (a bare RST is 40
// bytes, an echo reply to a probe 28..29), and links pad short frames to 60 bytes. Padded or not, the frame must
// reach the matcher as the packet it is.
func TestC04KernelPaddedReplies(t *testing.T) {
	rec := NewRecorder("C04", "C04KernelPaddedReplies", "enumeration on the real kernel (private network namespace, real AF_PACKET handle): destination-form replies (RST, RST-ACK, SYN-ACK with MSS, ICMP echo reply with 0 / 1 payload bytes, over IPv4) written to the loopback device bare and padded with zeros to the Ethernet minimum (60-byte frame) and beyond, read by packets.ReadAndParse; oracle: the packet is parsed (no error) as TCP with the flags it was sent with, or as ICMP echo reply; non-trivial = padded")
	rec.Exhaustive = true
	type padCase struct {
		Kind string `json:"kind"`
		Pad  int    `json:"pad_frame_to"`
	}
	RunCases(t, rec, func(yield func(*padCase) bool) {
		for _, k := range []string{"rst", "rst-ack", "syn-ack-mss", "echo-reply-0", "echo-reply-1"} {
			for _, p := range []int{0, 60, 64} {
				if !yield(&padCase{k, p}) {
					return
				}
			}
		}
	}, func(t *testing.T, c *padCase, rec *Recorder) []Diff {
		var ds []Diff
		lo := netip.MustParseAddr("127.0.0.1")
		var pkt []byte
		var wantFlags byte
		filter := packets.FilterTypeICMP
		switch c.Kind {
		case "rst":
			pkt, wantFlags, filter = tcpReply(lo, 443, lo, 40000, 7, 0, TCPRst, nil), TCPRst, packets.FilterTypeNone
		case "rst-ack":
			pkt, wantFlags, filter = tcpReply(lo, 443, lo, 40000, 7, 9, TCPRst|TCPAck, nil), TCPRst|TCPAck, packets.FilterTypeNone
		case "syn-ack-mss":
			pkt, wantFlags, filter = tcpReply(lo, 443, lo, 40000, 7, 9, TCPSyn|TCPAck, []byte{2, 4, 5, 0xb4}), TCPSyn|TCPAck, packets.FilterTypeSYNACK
		case "echo-reply-0":
			pkt = hostileICMP(&frameLenCase{Captured: 28, Claimed: 28})
		case "echo-reply-1":
			pkt = hostileICMP(&frameLenCase{Captured: 29, Claimed: 29})
		}
		err := inNetns(nil, func() error {
			src, err := packets.NewAFPacketSource()
			if err != nil {
				return fmt.Errorf("harness-infra: %v", err)
			}
			defer src.Close()
			if filter != packets.FilterTypeNone {
				if err := src.SetPacketFilter(packets.PacketFilterSpec{FilterType: filter}); err != nil {
					return fmt.Errorf("harness-infra: %v", err)
				}
			}
			inj, err := newLoInjector()
			if err != nil {
				return fmt.Errorf("harness-infra: %v", err)
			}
			defer inj.close()
			wire := append([]byte(nil), pkt...)
			for len(wire)+14 < c.Pad {
				wire = append(wire, 0)
			}
			if err := inj.send(wire); err != nil {
				return fmt.Errorf("harness-infra: inject: %v", err)
			}
			parser := packets.NewFrameParser()
			buf := make([]byte, 1024)
			src.SetReadDeadline(time.Now().Add(100 * time.Millisecond))
			if err := packets.ReadAndParse(src, buf, parser); err != nil {
				ds = append(ds, Diff{"C04", "destination-reply-lost", fmt.Sprintf("a %s (%d bytes) in a frame padded to %d bytes did not reach the matcher: %v", c.Kind, len(pkt), c.Pad, err)})
				return nil
			}
			if strings.HasPrefix(c.Kind, "echo") {
				if parser.GetTransportLayer() != layers.LayerTypeICMPv4 {
					ds = append(ds, Diff{"C04", "destination-reply-misparsed", fmt.Sprintf("a %s in a frame padded to %d bytes was parsed as %v", c.Kind, c.Pad, parser.GetTransportLayer())})
				}
				return nil
			}
			var fl byte
			if parser.TCP.SYN {
				fl |= TCPSyn
			}
			if parser.TCP.ACK {
				fl |= TCPAck
			}
			if parser.TCP.RST {
				fl |= TCPRst
			}
			if parser.GetTransportLayer() != layers.LayerTypeTCP || fl != wantFlags {
				ds = append(ds, Diff{"C04", "destination-reply-misparsed", fmt.Sprintf("a %s in a frame padded to %d bytes was parsed as %v with flags %#02x", c.Kind, c.Pad, parser.GetTransportLayer(), fl)})
			}
			return nil
		})
		if err != nil {
			fmt.Println(err)
			t.Fatalf("%v", err)
		}
		rec.CaseEnumerated(c.Pad > 0, c, "kind:"+c.Kind)
		return ds
	})
}

// TestC02KernelLinkHeaders: a genuine reply is recognised whatever link-layer addresses its frame carries (the
// receiving interface's MAC address is the first thing in every frame the capture handle reads).
func TestC02KernelLinkHeaders(t *testing.T) {
	rec := NewRecorder("C02", "C02KernelLinkHeaders", "enumeration on the real kernel (private network namespace, real AF_PACKET handle): genuine-form replies (time-exceeded quoting a UDP probe, port-unreachable, echo reply, TCP RST; IPv4 and IPv6 time-exceeded) in frames whose destination / source MAC addresses are all-zero, locally administered (02:00:00:00:00:01, 02:42:.., 1e:00:00:00:00:02, 06:.., 0a:.., 0e:..), vendor-assigned, multicast and broadcast; oracle: packets.ReadAndParse returns the packet with the transport layer and ICMP type it was sent with; non-trivial = a non-zero MAC address")
	rec.Exhaustive = true
	type macCase struct {
		Dst  string `json:"dst_mac"`
		Kind string `json:"kind"`
	}
	macs := []string{"00:00:00:00:00:00", "02:00:00:00:00:01", "02:42:0a:4d:00:01", "1e:00:00:00:00:02", "06:00:00:00:00:03", "0a:00:00:00:00:04", "0e:00:00:00:00:05", "00:1b:21:aa:bb:cc", "45:00:00:54:00:00", "60:00:00:00:00:08", "ff:ff:ff:ff:ff:ff", "01:00:5e:00:00:01", "18:00:00:00:00:09", "1c:00:00:00:00:0a"}
	RunCases(t, rec, func(yield func(*macCase) bool) {
		for _, m := range macs {
			for _, k := range []string{"ttl-exceeded", "port-unreach", "echo-reply", "rst", "ttl-exceeded6"} {
				if !yield(&macCase{m, k}) {
					return
				}
			}
		}
	}, func(t *testing.T, c *macCase, rec *Recorder) []Diff {
		var ds []Diff
		mac, _ := net.ParseMAC(c.Dst)
		lo4, lo6 := netip.MustParseAddr("127.0.0.1"), netip.MustParseAddr("::1")
		probe := rawUDP4(lo4, netip.MustParseAddr("127.0.0.9"), 40010, 33434, 41822, []byte("probe"))
		var pkt []byte
		wantLayer, wantTTLx, wantUnreach := layers.LayerTypeICMPv4, false, false
		switch c.Kind {
		case "ttl-exceeded":
			pkt, wantTTLx = icmpError(netip.MustParseAddr("127.0.0.7"), lo4, FormSpec{}, quoteOf(probe, FormSpec{})), true
		case "port-unreach":
			pkt, wantUnreach = icmpError(netip.MustParseAddr("127.0.0.9"), lo4, FormSpec{Kind: "unreach-port"}, quoteOf(probe, FormSpec{})), true
		case "echo-reply":
			pkt = hostileICMP(&frameLenCase{Captured: 36, Claimed: 36})
		case "rst":
			pkt, wantLayer = tcpReply(lo4, 443, lo4, 40000, 7, 9, TCPRst|TCPAck, nil), layers.LayerTypeTCP
		case "ttl-exceeded6":
			p6 := (&IPPacket{V6: true, Src: lo6, Dst: netip.MustParseAddr("2001:db8::9"), TTL: 1, Proto: ProtoUDP, Payload: probe[20:]}).Encode(EncodeOpts{})
			pkt, wantLayer, wantTTLx = icmpError(netip.MustParseAddr("2001:db8::7"), lo6, FormSpec{}, quoteOf(p6, FormSpec{})), layers.LayerTypeICMPv6, true
		}
		err := inNetns(nil, func() error {
			src, err := packets.NewAFPacketSource()
			if err != nil {
				return fmt.Errorf("harness-infra: %v", err)
			}
			defer src.Close()
			inj, err := newLoInjector()
			if err != nil {
				return fmt.Errorf("harness-infra: %v", err)
			}
			defer inj.close()
			if err := inj.sendMAC(pkt, mac, []byte{0x00, 0x1b, 0x21, 1, 2, 3}); err != nil {
				return fmt.Errorf("harness-infra: inject: %v", err)
			}
			parser := packets.NewFrameParser()
			buf := make([]byte, 1024)
			src.SetReadDeadline(time.Now().Add(100 * time.Millisecond))
			if err := packets.ReadAndParse(src, buf, parser); err != nil {
				ds = append(ds, Diff{"C02", "reply-lost-at-the-handle", fmt.Sprintf("a genuine %s in a frame addressed to %s did not reach the matcher: %v", c.Kind, c.Dst, err)})
				return nil
			}
			if parser.GetTransportLayer() != wantLayer || parser.IsTTLExceeded() != wantTTLx || parser.IsDestinationUnreachable() != wantUnreach {
				ds = append(ds, Diff{"C02", "reply-misparsed", fmt.Sprintf("a genuine %s in a frame addressed to %s was parsed as %v (ttl-exceeded=%v, unreachable=%v)", c.Kind, c.Dst, parser.GetTransportLayer(), parser.IsTTLExceeded(), parser.IsDestinationUnreachable())})
			}
			return nil
		})
		if err != nil {
			fmt.Println(err)
			t.Fatalf("%v", err)
		}
		rec.CaseEnumerated(c.Dst != "00:00:00:00:00:00", c, "kind:"+c.Kind)
		return ds
	})
}

// TestC13KernelNonIPFrames: every link carries frames that are not IP (ARP, LLDP, spanning tree); the all-protocols
// capture socket sees them until its filter is in place. They must never reach a driver, as a packet or as an
// empty read (which the drivers treat as fatal).
func TestC13KernelNonIPFrames(t *testing.T) {
	rec := NewRecorder("C13", "C13KernelNonIPFrames", "enumeration on the real kernel (private network namespace, real AF_PACKET handle): 1 or 5 non-IP frames (ARP, LLDP, an 802.3 length frame) written to the device before the handle's filter (icmp / udp variant's / tcp tuple) is set, or none before and some after, followed by a matching ICMP frame; oracle: packets.ReadAndParse returns that ICMP packet (no fatal error, no empty read); non-trivial = a non-IP frame was queued before the filter was set")
	rec.Exhaustive = true
	type nonIPCase struct {
		Ether  int    `json:"ethertype"`
		Before int    `json:"before_filter"`
		After  int    `json:"after_filter"`
		Filter string `json:"filter"`
	}
	RunCases(t, rec, func(yield func(*nonIPCase) bool) {
		for _, et := range []int{0x0806, 0x88cc, 0x0026} {
			for _, f := range []string{"icmp", "udp", "tcp"} {
				for _, ba := range [][2]int{{1, 0}, {5, 0}, {0, 3}, {2, 2}} {
					if !yield(&nonIPCase{et, ba[0], ba[1], f}) {
						return
					}
				}
			}
		}
	}, func(t *testing.T, c *nonIPCase, rec *Recorder) []Diff {
		var ds []Diff
		cfg := filterCfg{Type: c.Filter, Src: "127.0.0.1", Dst: "127.0.0.1", SPort: 443, DPort: 40000}
		err := inNetns(nil, func() error {
			src, err := packets.NewAFPacketSource()
			if err != nil {
				return fmt.Errorf("harness-infra: %v", err)
			}
			defer src.Close()
			inj, err := newLoInjector()
			if err != nil {
				return fmt.Errorf("harness-infra: %v", err)
			}
			defer inj.close()
			arp := make([]byte, 28)
			copy(arp, []byte{0, 1, 8, 0, 6, 4, 0, 1})
			for i := 0; i < c.Before; i++ {
				if err := inj.sendRaw(uint16(c.Ether), arp); err != nil {
					return fmt.Errorf("harness-infra: inject: %v", err)
				}
			}
			time.Sleep(5 * time.Millisecond)
			if err := src.SetPacketFilter(cfg.spec()); err != nil {
				return fmt.Errorf("harness-infra: %v", err)
			}
			for i := 0; i < c.After; i++ {
				inj.sendRaw(uint16(c.Ether), arp)
			}
			pkt := hostileICMP(&frameLenCase{Captured: 36, Claimed: 36})
			if err := inj.send(pkt); err != nil {
				return fmt.Errorf("harness-infra: inject: %v", err)
			}
			parser := packets.NewFrameParser()
			buf := make([]byte, 1024)
			src.SetReadDeadline(time.Now().Add(150 * time.Millisecond))
			if err := packets.ReadAndParse(src, buf, parser); err != nil {
				ds = append(ds, Diff{"C13", "non-ip-frame-reaches-driver", fmt.Sprintf("%d frames of EtherType %#04x were on the link before the %s filter was set (%d after); reading the ICMP packet that followed gave: %v", c.Before, c.Ether, c.Filter, c.After, err)})
			} else if parser.GetTransportLayer() != layers.LayerTypeICMPv4 {
				ds = append(ds, Diff{"C13", "non-ip-frame-reaches-driver", fmt.Sprintf("EtherType %#04x: the first packet handed to the parser is %v, not the ICMP packet", c.Ether, parser.GetTransportLayer())})
			}
			return nil
		})
		if err != nil {
			fmt.Println(err)
			t.Fatalf("%v", err)
		}
		rec.CaseEnumerated(c.Before > 0, c, "filter:"+c.Filter)
		return ds
	})
}

// ---- whole runs over the real sockets on loopback (C03, C06) ----

type loopRunCase struct {
	Variant string `json:"variant"` // udp4 udp6 icmp4 icmp6 tcp4
	MaxTTL  int    `json:"max_ttl"`
}

// loopbackRun performs one real run against the namespace's own loopback address, which answers the first probe.
func loopbackRun(c *loopRunCase) (run *result.TracerouteRun, rerr error, tx int, err error) {
	err = inNetns([]string{"sysctl -qw net.ipv6.conf.lo.disable_ipv6=0"}, func() error {
		t4, t6 := netip.MustParseAddr("127.0.0.1"), netip.MustParseAddr("::1")
		time.Sleep(20 * time.Millisecond)
		before, e := loTxPackets()
		if e != nil {
			return fmt.Errorf("harness-infra: %v", e)
		}
		pp := common.TracerouteParallelParams{TracerouteParams: common.TracerouteParams{MinTTL: 1, MaxTTL: uint8(c.MaxTTL), TracerouteTimeout: 200 * time.Millisecond, PollFrequency: 20 * time.Millisecond, SendDelay: 40 * time.Millisecond}}
		switch c.Variant {
		case "udp4":
			run, rerr = udp.NewUDPv4(net.IP(t4.AsSlice()), 33434, 1, uint8(c.MaxTTL), 40*time.Millisecond, 200*time.Millisecond, false).Traceroute()
		case "udp6":
			run, rerr = udp.NewUDPv4(net.IP(t6.AsSlice()), 33434, 1, uint8(c.MaxTTL), 40*time.Millisecond, 200*time.Millisecond, false).Traceroute()
		case "icmp4":
			run, rerr = icmp.RunICMPTraceroute(context.Background(), icmp.Params{Target: t4, ParallelParams: pp})
		case "icmp6":
			run, rerr = icmp.RunICMPTraceroute(context.Background(), icmp.Params{Target: t6, ParallelParams: pp})
		case "tcp4":
			run, rerr = tcp.NewTCPv4(net.IP(t4.AsSlice()), 443, 1, uint8(c.MaxTTL), 40*time.Millisecond, 200*time.Millisecond, false, false).Traceroute()
		}
		time.Sleep(20 * time.Millisecond)
		after, e := loTxPackets()
		if e != nil {
			return fmt.Errorf("harness-infra: %v", e)
		}
		tx = after - before
		return nil
	})
	return
}

func loopRunCases(yield func(*loopRunCase) bool) {
	for _, v := range []string{"udp4", "udp6", "icmp4", "icmp6", "tcp4"} {
		for _, m := range []int{1, 4, 8} {
			if !yield(&loopRunCase{v, m}) {
				return
			}
		}
	}
}

// TestC03KernelLoopbackRuns: the list a real run returns when the destination answers the first probe: one entry.
func TestC03KernelLoopbackRuns(t *testing.T) {
	rec := NewRecorder("C03", "C03KernelLoopbackRuns", "enumeration on the real kernel (private network namespace, real raw sink and capture handle): udp and icmp runs over IPv4 and IPv6 and a tcp-syn run to the namespace's own loopback address (which answers the first probe: port unreachable, echo reply, RST), last TTL 1 / 4 / 8; oracle: the run succeeds with exactly one entry, TTL 1, the destination; non-trivial = last TTL > 1")
	rec.Exhaustive = true
	RunCases(t, rec, loopRunCases, func(t *testing.T, c *loopRunCase, rec *Recorder) []Diff {
		run, rerr, _, err := loopbackRun(c)
		if err != nil {
			fmt.Println(err)
			t.Fatalf("%v", err)
		}
		var ds []Diff
		switch {
		case rerr != nil || run == nil:
			ds = append(ds, Diff{"C03", "loopback-run-failed", fmt.Sprintf("%s last TTL %d to the loopback address failed: %v", c.Variant, c.MaxTTL, rerr)})
		case len(run.Hops) != 1 || run.Hops[0] == nil || run.Hops[0].TTL != 1 || !run.Hops[0].IsDest:
			ds = append(ds, Diff{"C03", "list-past-destination", fmt.Sprintf("%s last TTL %d: the loopback destination answers the first probe, the run returned %d entries (%s)", c.Variant, c.MaxTTL, len(run.Hops), describeHops(run))})
		}
		rec.CaseEnumerated(c.MaxTTL > 1, c, "variant:"+c.Variant)
		return ds
	})
}

func describeHops(run *result.TracerouteRun) string {
	var sb strings.Builder
	for _, h := range run.Hops {
		if h == nil {
			sb.WriteString("nil ")
			continue
		}
		fmt.Fprintf(&sb, "%d:%v%s ", h.TTL, h.IPAddress, map[bool]string{true: "*", false: ""}[h.IsDest])
	}
	return sb.String()
}

// TestC06KernelLoopbackRuns: the same runs judged for C06: once the destination has answered, at most one more probe.
func TestC06KernelLoopbackRuns(t *testing.T) {
	rec := NewRecorder("C06", "C06KernelLoopbackRuns", "enumeration on the real kernel (private network namespace): the runs of C03KernelLoopbackRuns (send delay 40 ms, the destination answers within microseconds); oracle: the loopback device transmits at most 2 probes and their answers (<= 6 packets; a TCP SYN to a closed port and its RST, a datagram and its port-unreachable, an echo and its reply), whatever the last TTL; non-trivial = last TTL >= 4")
	rec.Exhaustive = true
	RunCases(t, rec, loopRunCases, func(t *testing.T, c *loopRunCase, rec *Recorder) []Diff {
		_, _, tx, err := loopbackRun(c)
		if err != nil {
			fmt.Println(err)
			t.Fatalf("%v", err)
		}
		var ds []Diff
		if tx > 6 {
			ds = append(ds, Diff{"C06", "probes-after-destination", fmt.Sprintf("%s last TTL %d: the destination answers the first probe at once, yet the loopback device transmitted %d packets during the run (two probes with their answers are 4)", c.Variant, c.MaxTTL, tx)})
		}
		rec.CaseEnumerated(c.MaxTTL >= 4, map[string]any{"case": c, "packets_on_the_device": tx}, "variant:"+c.Variant)
		return ds
	})
}

// TestC02ServerLongRun (thorough tier: takes 62 s of real time): the bundled HTTP server, started the way its
// binary starts it, must deliver the result of a run however long the run takes; the replies were received and
// matched, and losing the answer on the way out loses them all.
func TestC02ServerLongRun(t *testing.T) { serverLongRun(t, "C02") }

// TestC15ServerLongRun: the same requests judged for C15: a request whose runs all succeeded is answered with its
// result, however long it took.
func TestC15ServerLongRun(t *testing.T) { serverLongRun(t, "C15") }

func serverLongRun(t *testing.T, prop string) {
	rec := NewRecorder(prop, prop+"ServerLongRun", "real clock, real sockets on loopback, the HTTP server started through Server.Start: one icmp request with a listening timeout of 61 s (the parallel engines listen for the whole timeout) and one short control request; oracle: both are answered with status 200 and a document whose first hop is the loopback address; non-trivial = the request took longer than 60 s")
	rec.Exhaustive = true
	type longCase struct {
		TimeoutMs int `json:"timeout_ms"`
	}
	started := false
	RunCases(t, rec, func(yield func(*longCase) bool) {
		for _, ms := range []int{300, 61000} {
			if !yield(&longCase{ms}) {
				return
			}
		}
	}, func(t *testing.T, c *longCase, rec *Recorder) []Diff {
		if !started {
			started = true
			go server.NewServer().Start("127.0.0.1:3765")
			for i := 0; i < 100; i++ {
				if conn, err := net.DialTimeout("tcp", "127.0.0.1:3765", 100*time.Millisecond); err == nil {
					conn.Close()
					break
				}
				time.Sleep(20 * time.Millisecond)
			}
		}
		var ds []Diff
		t0 := time.Now()
		cl := &http.Client{Timeout: 120 * time.Second}
		resp, err := cl.Get(fmt.Sprintf("http://127.0.0.1:3765/traceroute?target=127.0.0.1&protocol=icmp&max-ttl=2&timeout=%d&traceroute-queries=1&e2e-queries=0", c.TimeoutMs))
		took := time.Since(t0)
		if err != nil {
			ds = append(ds, Diff{prop, "answer-lost", fmt.Sprintf("a request whose run listens for %d ms got no answer after %v: %v (the loopback address answers the first probe within microseconds)", c.TimeoutMs, took.Round(time.Millisecond), err)})
		} else {
			defer resp.Body.Close()
			var doc result.Results
			derr := json.NewDecoder(resp.Body).Decode(&doc)
			if resp.StatusCode != 200 || derr != nil || len(doc.Traceroute.Runs) != 1 || len(doc.Traceroute.Runs[0].Hops) == 0 || !doc.Traceroute.Runs[0].Hops[0].Reachable {
				ds = append(ds, Diff{prop, "answer-lost", fmt.Sprintf("a request whose run listens for %d ms was answered with status %d, decode error %v, %d runs", c.TimeoutMs, resp.StatusCode, derr, len(doc.Traceroute.Runs))})
			}
		}
		rec.CaseEnumerated(took > 60*time.Second, map[string]any{"case": c, "took_s": took.Seconds()}, fmt.Sprintf("timeout_ms:%d", c.TimeoutMs))
		return ds
	})
}

// TestC13KernelPortSpaces: the source port of a TCP SYN run is a TCP port: a number that is free among the UDP
// ports may belong to an established TCP connection to the very target (an application's own connection), and
// probes sent from it are answered with challenge ACKs instead of SYN-ACK or RST.
func TestC13KernelPortSpaces(t *testing.T) {
	rec := NewRecorder("C13", "C13KernelPortSpaces", "enumeration on the real kernel (private network namespace with a two-port ephemeral range): one of the two numbers is taken among the UDP ports, the other belongs to an established TCP connection to the traced target and port; a tcp-syn run to that target (open port, then a closed one); oracle: exactly one entry, the destination (SYN-ACK or RST); non-trivial always")
	rec.Exhaustive = true
	type portCase struct {
		Open bool `json:"port_open"`
	}
	RunCases(t, rec, func(yield func(*portCase) bool) {
		for _, o := range []bool{true, false} {
			if !yield(&portCase{o}) {
				return
			}
		}
	}, func(t *testing.T, c *portCase, rec *Recorder) []Diff {
		var ds []Diff
		var run *result.TracerouteRun
		var rerr error
		err := inNetns([]string{"sysctl -qw net.ipv4.ip_local_port_range='40000 40001'"}, func() error {
			lo := net.IPv4(127, 0, 0, 1)
			ln, err := net.Listen("tcp4", "127.0.0.1:8080")
			if err != nil {
				return fmt.Errorf("harness-infra: %v", err)
			}
			defer ln.Close()
			// UDP port 40001 is taken, so a UDP socket that asks the kernel for a port gets 40000
			u, err := net.ListenUDP("udp4", &net.UDPAddr{IP: lo, Port: 40001})
			if err != nil {
				return fmt.Errorf("harness-infra: %v", err)
			}
			defer u.Close()
			// TCP port 40000 belongs to an established connection to the target
			d := net.Dialer{LocalAddr: &net.TCPAddr{IP: lo, Port: 40000}, Timeout: time.Second}
			app, err := d.Dial("tcp4", "127.0.0.1:8080")
			if err != nil {
				return fmt.Errorf("harness-infra: %v", err)
			}
			defer app.Close()
			port := uint16(8080)
			if !c.Open {
				port = 8081
				// an established connection to the closed port cannot exist; hold the number with a connection to 8080 as well
			}
			run, rerr = tcp.NewTCPv4(lo, port, 1, 3, 10*time.Millisecond, 200*time.Millisecond, false, false).Traceroute()
			return nil
		})
		if err != nil {
			fmt.Println(err)
			t.Fatalf("%v", err)
		}
		switch {
		case rerr != nil || run == nil:
			ds = append(ds, Diff{"C13", "run-failed", fmt.Sprintf("tcp-syn run to the loopback target (port open: %v) failed: %v", c.Open, rerr)})
		case len(run.Hops) != 1 || run.Hops[0] == nil || !run.Hops[0].IsDest:
			ds = append(ds, Diff{"C13", "destination-not-found", fmt.Sprintf("tcp-syn run from source port %d to the loopback target (port open: %v) returned %d entries (%s); an established connection of the host uses TCP port 40000 towards that target", run.Source.Port, c.Open, len(run.Hops), describeHops(run))})
		}
		rec.CaseEnumerated(true, map[string]any{"case": c, "source_port": func() int {
			if run != nil {
				return int(run.Source.Port)
			}
			return 0
		}()}, fmt.Sprintf("open:%v", c.Open))
		return ds
	})
}
