package harness

// C05 on the real clock: a probe write that blocks (full send buffer, slow device) must not leak into
// the RTT of another probe. The virtual clock cannot host this case: a receiver waiting for a mutex
// held across the blocked write is not "durably blocked", so virtual time would never advance.

import (
	"fmt"
	"math"
	"testing"
	"time"

	"pgregory.net/rapid"
)

type stallCase struct {
	Variant  string `json:"variant"` // icmp4 icmp6 udp4 udp6 sack
	NProbes  int    `json:"n_probes"`
	StallAt  int    `json:"stall_at"` // index of the write that blocks (>= 1)
	StallMs  int    `json:"stall_ms"`
	ReplyFor int    `json:"reply_for"` // index (< StallAt) of the probe whose reply arrives during the stall
	ReplyMs  int    `json:"reply_ms"`  // its arrival, relative to its own send
	ISN      uint32 `json:"isn"`
}

func TestC05RealTimeStall(t *testing.T) {
	rec := NewRecorder("C05", "C05RealTimeStall", "rapid, real clock: parallel-capable variants (icmp4/6, udp4/6, sack) over the share-nothing wire of C14 where one probe write blocks for 250-400 ms while the reply to an earlier probe arrives; oracle: |reported RTT - (instant Read returned the reply - instant WriteTo was entered for that probe)| <= 100 ms (the production poll interval; the correct value is a few microseconds, a send time or RTT taken across the blocked write is off by >= 150 ms); non-trivial = the reply was read while the later write was blocked")
	rec.Assumptions = append(rec.Assumptions, "real time: the tolerance of 100 ms absorbs scheduling noise; the virtual clock cannot host lock contention across a blocked write")
	RunProp(t, rec, func(rt *rapid.T) *stallCase {
		c := &stallCase{Variant: oneOf(rt, "variant", "icmp4", "icmp6", "udp4", "udp6", "sack", "sack")}
		c.NProbes = rapid.IntRange(3, 6).Draw(rt, "n")
		c.StallAt = rapid.IntRange(1, c.NProbes-1).Draw(rt, "stall_at")
		c.ReplyFor = rapid.IntRange(0, c.StallAt-1).Draw(rt, "reply_for")
		c.StallMs = oneOf(rt, "stall_ms", 250, 300, 400)
		c.ISN = oneOf(rt, "isn", uint32(7), 0xfffffffc)
		return c
	}, func(t *testing.T, c *stallCase, rec *Recorder) []Diff {
		const delayUs = 5000
		// the reply to probe ReplyFor arrives 60 ms after the stalled write began
		stallBegins := time.Duration(c.StallAt) * delayUs * time.Microsecond
		replySent := time.Duration(c.ReplyFor) * delayUs * time.Microsecond
		arrive := stallBegins + 60*time.Millisecond
		cc := &c14Case{Variant: c.Variant, MinTTL: 1, MaxTTL: c.NProbes, DelayUs: delayUs, TimeoutMs: c.StallMs + 200, PollMs: 10, EchoBase: 41, ISN: c.ISN, RealTime: true, Port: 33434}
		for i := 0; i < c.NProbes; i++ {
			off := int64(3_000_000) // far in the future: never read
			if i == c.ReplyFor {
				off = (arrive - replySent).Microseconds()
			}
			cc.Offsets = append(cc.Offsets, off)
		}
		err, _, _, sink, src, run := runC14x(t, cc, map[int]time.Duration{c.StallAt: time.Duration(c.StallMs) * time.Millisecond})
		if err != nil && len(err.Error()) > 13 && err.Error()[:13] == "harness-infra" {
			t.Fatalf("%v", err)
		}
		var ds []Diff
		nt := false
		if err != nil || run == nil || sink == nil || len(sink.callAt) <= c.StallAt || len(src.readAt) == 0 {
			rec.Case(scenarioKey(c), false, nil, "other:run-incomplete")
			return nil
		}
		sendAt := sink.callAt[c.ReplyFor]
		readAt := src.readAt[0]
		want := readAt.Sub(sendAt)
		stallStart := sink.callAt[c.StallAt]
		nt = readAt.After(stallStart) && readAt.Before(stallStart.Add(time.Duration(c.StallMs)*time.Millisecond))
		idx := c.ReplyFor // MinTTL is 1: hop index == probe index
		if idx < len(run.Hops) && len(run.Hops[idx].IPAddress) > 0 {
			got := time.Duration(run.Hops[idx].RTT * float64(time.Millisecond))
			if run.Hops[idx].RTT < 0 || math.Abs(float64(got-want)) > float64(100*time.Millisecond) {
				ds = append(ds, Diff{"C05", "rtt-across-blocked-write", fmt.Sprintf("%s: hop TTL %d RTT %v, but its reply was returned by Read %v after WriteTo was entered for that probe (a later probe's write was blocked for %d ms at the time)", c.Variant, idx+1, got, want, c.StallMs)})
			}
		} else {
			nt = false
		}
		rec.Case(scenarioKey(c), nt, map[string]any{"case": c, "expected_rtt": want.String()}, "variant:"+c.Variant)
		return ds
	})
}
