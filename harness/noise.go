package harness

// Perturbation lattice: single-field changes of genuine replies, each with a stated verdict.

import (
	"encoding/binary"
	"net/netip"
)

// NoiseKinds lists, per probe kind, the must-reject perturbations (C01/C04) the generator draws from.
// strictOnly kinds are must-reject only with strict quoted-source checking.
var quoteNoiseKinds = map[string][]string{
	"icmp-echo": {"q-short", "q-none", "q-dst-addr", "q-src-addr", "q-echo-id", "q-echo-seq256", "q-echo-type", "q-unsent", "echo-reply-id", "echo-reply-seq256", "echo-reply-foreign", "echo-reply-unsent"},
	"udp":       {"q-short", "q-none", "q-dst-addr", "q-dst-port", "q-src-addr", "q-src-port", "q-id", "q-unsent"},
	"tcp-syn":   {"q-short", "q-none", "q-dst-addr", "q-dst-port", "q-src-addr", "q-src-port", "q-id", "q-tcp-seq", "q-unsent", "tcp-wrong-src", "tcp-wrong-sport", "tcp-wrong-dport", "tcp-wrong-dst", "tcp-ack-wrong", "tcp-flags-other"},
	"tcp-ack":   {"q-short", "q-none", "q-dst-addr", "q-dst-port", "q-src-addr", "q-src-port", "q-tcp-seq", "q-unsent", "sack-wrong-src", "sack-wrong-sport", "sack-wrong-dport", "sack-wrong-dst", "sack-edge-oob", "sack-edge-unsent", "sack-synflag", "sack-synack-again"},
}

var strictOnlyNoise = map[string]bool{"q-src-addr": true, "q-src-port": true}

// dontCareKinds are generated only in robustness runs and never asserted either way.
var dontCareKinds = []string{"q-proto", "icmp-code", "echo-reply-dst", "outer-dst"}

func flipAddr(b []byte) { b[len(b)-1] ^= 0x01; b[len(b)-2] ^= 0x40 }

// futureRaw rewrites the probe's bytes into what the probe for TTL ttl+arg would look like under the
// deterministic identifier schemes; ok=false when the scheme is random (Paris mode).
func futureRaw(p *Probe, arg int, paris bool) ([]byte, bool) {
	raw := append([]byte(nil), p.Raw...)
	off := l4off(raw)
	v6 := p.IP.V6
	nt := int(p.TTL) + arg
	if nt < 0 || nt > 255 {
		return nil, false
	}
	if v6 {
		raw[7] = byte(nt)
	} else {
		raw[8] = byte(nt)
	}
	switch p.Kind {
	case "icmp-echo":
		binary.BigEndian.PutUint16(raw[off+6:], uint16(nt))
	case "udp":
		if v6 {
			binary.BigEndian.PutUint16(raw[4:], uint16(int(binary.BigEndian.Uint16(raw[4:]))+arg))
			binary.BigEndian.PutUint16(raw[off+4:], uint16(int(binary.BigEndian.Uint16(raw[off+4:]))+arg))
		} else {
			binary.BigEndian.PutUint16(raw[4:], uint16(int(binary.BigEndian.Uint16(raw[4:]))+arg))
		}
	case "tcp-syn":
		if paris {
			return nil, false
		}
		binary.BigEndian.PutUint16(raw[4:], uint16(int(binary.BigEndian.Uint16(raw[4:]))+arg))
	case "tcp-ack":
		binary.BigEndian.PutUint32(raw[off+4:], uint32(int64(binary.BigEndian.Uint32(raw[off+4:]))+int64(arg)))
	}
	return raw, true
}

func (n *NetWorld) nextPoison(v6 bool) netip.Addr {
	n.poisonN++
	return poisonAddr(v6, n.poisonN)
}

// buildNoise materialises one noise item from the probe that anchors it.
func (n *NetWorld) buildNoise(fs *flowSt, p *Probe, ni NoiseItem) (Sched, bool) {
	v6 := p.IP.V6
	raw := append([]byte(nil), p.Raw...)
	off := l4off(raw)
	target, local := p.IP.Dst, p.IP.Src
	tag := Tag{Class: "perturbed", MustReject: true, Field: ni.Kind, CreditTTL: int(p.TTL)}
	if strictOnlyNoise[ni.Kind] && !n.Strict && p.Kind != "icmp-echo" {
		return Sched{}, false
	}
	quoted := func(q []byte) (Sched, bool) {
		from := n.nextPoison(v6)
		tag.Responder = from.String()
		return Sched{Delay: us(ni.DelayUs), Data: icmpError(from, local, ni.Form, quoteOf(q, ni.Form)), Tag: tag}, true
	}
	arg := ni.Arg
	if arg == 0 {
		arg = 1
	}
	paris := p.Kind == "tcp-syn" && p.IP.ID == 41821
	switch ni.Kind {
	case "q-short":
		// the quote ends 0, 2 or 3 bytes after the IP header: it carries the probe's IP header and identification,
		// but not the destination port / echo identifier that names the probe's flow; nothing can be attributed to it, and nothing left over from an earlier packet may fill the gap
		k := []int{0, 2, 3}[arg%3]
		if len(raw) > off+k {
			raw = raw[:off+k]
		}
		// never in the zero-padded RFC 4884 form: the padding could reproduce the missing bytes (a destination
		// port whose low byte is 0), and then the quote does name the flow
		ni.Form = FormSpec{}
		return quoted(raw)
	case "q-none":
		// an ICMP error that quotes nothing at all (the message ends after its 8-byte header; over IPv6 also after the
		// first 4 bytes): it names no probe, whoever sent it -- a foreign host or the target itself -- and whatever
		// the previous packet on this handle was
		from := n.nextPoison(v6)
		if arg%4 >= 2 {
			from = target
		}
		tag.Responder = from.String()
		data := icmpError(from, local, FormSpec{Kind: ni.Form.Kind}, nil)
		if v6 && arg%2 == 1 && len(data) >= 48 {
			data = data[:44]
			binary.BigEndian.PutUint16(data[4:], 4)
		}
		return Sched{Delay: us(ni.DelayUs), Data: data, Tag: tag}, true
	case "q-dst-addr":
		if v6 {
			flipAddr(raw[24:40])
		} else {
			flipAddr(raw[16:20])
		}
		return quoted(raw)
	case "q-src-addr":
		if v6 {
			flipAddr(raw[8:24])
		} else {
			flipAddr(raw[12:16])
		}
		return quoted(raw)
	case "q-dst-port":
		binary.BigEndian.PutUint16(raw[off+2:], binary.BigEndian.Uint16(raw[off+2:])^uint16(1<<(uint(arg)%16)))
		return quoted(raw)
	case "q-src-port":
		binary.BigEndian.PutUint16(raw[off:], binary.BigEndian.Uint16(raw[off:])^uint16(1<<(uint(arg)%16)))
		return quoted(raw)
	case "q-echo-id":
		id := binary.BigEndian.Uint16(raw[off+4:])
		switch arg % 3 {
		case 0:
			id++
		case 1:
			id--
		default:
			id ^= 0xff00
		}
		binary.BigEndian.PutUint16(raw[off+4:], id)
		return quoted(raw)
	case "q-echo-type":
		// the quoted datagram is not an echo request at all (another ICMP message, or for some arguments a UDP
		// datagram), although the bytes where an echo carries identifier and sequence number agree with a probe
		// of this run; the echo reply type is left out (never asserted either way)
		types := []byte{13, 17, 3, 11, 42, 255, 9, 127}
		if v6 {
			types = []byte{130, 135, 1, 3, 127, 255, 133, 160}
		}
		raw[off] = types[arg%len(types)]
		if arg%3 == 0 {
			if v6 {
				raw[6] = 17
			} else {
				raw[9] = 17
			}
		}
		return quoted(raw)
	case "q-echo-seq256":
		// agrees with a sent probe only modulo 256
		k := uint16(1 + (arg-1)%255)
		binary.BigEndian.PutUint16(raw[off+6:], binary.BigEndian.Uint16(raw[off+6:])+256*k)
		return quoted(raw)
	case "q-id":
		if p.Kind == "udp" && v6 {
			binary.BigEndian.PutUint16(raw[4:], binary.BigEndian.Uint16(raw[4:])+300)
		} else {
			// the deterministic ID ranges span fewer than 256 values, so flipping bit 8 leaves the sent set
			x := uint16(0x0100)
			if arg%2 == 0 {
				x = 0xff00
			}
			if paris {
				// constant IP-ID in Paris mode: any other value identifies no probe
				x = uint16(arg) | 1
			}
			binary.BigEndian.PutUint16(raw[4:], binary.BigEndian.Uint16(raw[4:])^x)
		}
		return quoted(raw)
	case "q-tcp-seq":
		s := binary.BigEndian.Uint32(raw[off+4:])
		if p.Kind == "tcp-ack" {
			// relative sequence number outside the probed range
			if arg%2 == 0 {
				s += 256 * uint32(1+arg%200)
			} else {
				s -= 300
			}
		} else {
			switch arg % 3 {
			case 0:
				s++
			case 1:
				s ^= 0x80000000
			default:
				s -= 0x10000
			}
		}
		binary.BigEndian.PutUint32(raw[off+4:], s)
		return quoted(raw)
	case "q-unsent":
		fr, ok := futureRaw(p, arg, paris)
		if !ok {
			return Sched{}, false
		}
		tag.CreditTTL = int(p.TTL) + arg
		return quoted(fr)
	case "echo-reply-id":
		from := target
		tag.Responder = from.String()
		id := p.ICMP.EchoID() + 1
		if arg%2 == 0 {
			id = p.ICMP.EchoID() ^ 0xff00
		}
		return Sched{Delay: us(ni.DelayUs), Data: echoReply(p, from, id, p.ICMP.EchoSeq()), Tag: tag}, true
	case "echo-reply-seq256":
		tag.Responder = target.String()
		k := uint16(1 + (arg-1)%255)
		return Sched{Delay: us(ni.DelayUs), Data: echoReply(p, target, p.ICMP.EchoID(), p.ICMP.EchoSeq()+256*k), Tag: tag}, true
	case "echo-reply-foreign":
		from := n.nextPoison(v6)
		tag.Responder = from.String()
		tag.IsDestForm = true
		return Sched{Delay: us(ni.DelayUs), Data: echoReply(p, from, p.ICMP.EchoID(), p.ICMP.EchoSeq()), Tag: tag}, true
	case "echo-reply-unsent":
		nt := int(p.TTL) + arg
		if nt > 255 {
			return Sched{}, false
		}
		tag.Responder = target.String()
		tag.CreditTTL = nt
		return Sched{Delay: us(ni.DelayUs), Data: echoReply(p, target, p.ICMP.EchoID(), uint16(nt)), Tag: tag}, true
	case "tcp-wrong-src", "tcp-wrong-sport", "tcp-wrong-dport", "tcp-wrong-dst", "tcp-ack-wrong", "tcp-flags-other":
		src, dst := target, local
		sport, dport := p.DPort, p.SPort
		flags := uint8(TCPSyn | TCPAck)
		if arg%2 == 0 {
			flags = TCPRst | TCPAck
		}
		ack := p.TCP.Seq + 1
		switch ni.Kind {
		case "tcp-wrong-src":
			src = n.nextPoison(v6)
		case "tcp-wrong-sport":
			sport ^= uint16(1 << (uint(arg) % 16))
		case "tcp-wrong-dport":
			dport ^= uint16(1 << (uint(arg) % 16))
		case "tcp-wrong-dst":
			b := dst.As4()
			b[3] ^= 1
			dst = netip.AddrFrom4(b)
		case "tcp-ack-wrong":
			ack += uint32(1 + arg%7)
		case "tcp-flags-other":
			flags = []uint8{TCPAck, TCPFin | TCPAck, TCPSyn, TCPPsh | TCPAck}[arg%4]
		}
		tag.Responder = src.String()
		tag.IsDestForm = true
		return Sched{Delay: us(ni.DelayUs), Data: tcpReply(src, sport, dst, dport, 0x7000, ack, flags, nil), Tag: tag}, true
	case "sack-synack-again":
		// the target retransmits the handshake's SYN-ACK during the run (it has not seen the handshake's last
		// ACK yet): a segment of the traced connection without a SACK option, which answers no probe and says
		// nothing about the target's SACK support (it even repeats SACK-permitted)
		if !fs.haveTCP || !fs.handshaken {
			return Sched{}, false
		}
		opts := []byte{2, 4, 0xff, 0xd7, 4, 2}
		if fs.hasTS {
			opts = append(opts, 8, 10, 0x01, 0x02, 0x03, 0x04, 0x0a, 0x0b, 0x0c, 0x0d)
		}
		opts = append(opts, 1, 3, 3, 7)
		for len(opts)%4 != 0 {
			opts = append(opts, 1)
		}
		tag.Responder = target.String()
		return Sched{Delay: us(ni.DelayUs), Data: tcpReply(target, p.DPort, local, p.SPort, fs.srvSeq, fs.rcvNxt, TCPSyn|TCPAck, opts), Tag: tag}, true
	case "sack-wrong-src", "sack-wrong-sport", "sack-wrong-dport", "sack-wrong-dst", "sack-edge-oob", "sack-edge-unsent", "sack-synflag":
		if !fs.haveTCP {
			return Sched{}, false
		}
		src, dst := target, local
		sport, dport := p.DPort, p.SPort
		left := p.TCP.Seq
		flags := uint8(TCPAck)
		switch ni.Kind {
		case "sack-wrong-src":
			src = netip.AddrFrom4([4]byte{127, 66, 66, byte(1 + arg%200)})
		case "sack-wrong-sport":
			sport ^= uint16(1 << (uint(arg) % 16))
		case "sack-wrong-dport":
			dport ^= uint16(1 << (uint(arg) % 16))
		case "sack-wrong-dst":
			b := dst.As4()
			b[3] ^= 2
			dst = netip.AddrFrom4(b)
		case "sack-edge-oob":
			if arg%2 == 0 {
				left += 256 * uint32(1+arg%100)
			} else {
				left -= 300
			}
		case "sack-edge-unsent":
			left += uint32(arg)
			tag.CreditTTL = int(p.TTL) + arg
		case "sack-synflag":
			flags = []uint8{TCPSyn | TCPAck, TCPFin | TCPAck, TCPRst | TCPAck}[arg%3]
		}
		opts := []byte{1, 1, 5, 10, 0, 0, 0, 0, 0, 0, 0, 0}
		binary.BigEndian.PutUint32(opts[4:], left)
		binary.BigEndian.PutUint32(opts[8:], left+1)
		tag.Responder = src.String()
		tag.IsDestForm = true
		return Sched{Delay: us(ni.DelayUs), Data: tcpReply(src, sport, dst, dport, fs.srvSeq+1, fs.rcvNxt, flags, opts), Tag: tag}, true

	// ---- don't-care perturbations (never asserted) ----
	case "q-proto":
		tag.Class, tag.MustReject = "dontcare", false
		if v6 {
			raw[6] ^= 0x20
		} else {
			raw[9] ^= 0x20
		}
		return quoted(raw)
	case "icmp-code":
		tag.Class, tag.MustReject = "dontcare", false
		f := ni.Form
		f.ICMPCode = 1
		from := n.nextPoison(v6)
		tag.Responder = from.String()
		return Sched{Delay: us(ni.DelayUs), Data: icmpError(from, local, f, quoteOf(raw, f)), Tag: tag}, true
	}
	return Sched{}, false
}
