package harness

// Trace-driven reference model and the oracles for C01–C06. The reference consumes the ledger of
// what the capture handle actually returned (with the world's ground-truth tags); it never predicts
// timing.

import (
	"fmt"
	"math"
	"net/netip"
	"sort"
	"time"
)

// Diff is one disagreement between the run and the oracle, attributed to a property.
type Diff struct {
	Prop string `json:"prop"`
	Sig  string `json:"sig"` // short stable signature (for known findings)
	Msg  string `json:"msg"`
}

func (d Diff) String() string { return d.Prop + " [" + d.Sig + "] " + d.Msg }

type RefHop struct {
	TTL     int
	Present bool
	Addr    netip.Addr
	IsDest  bool
	RTT     time.Duration
	TagID   int
	ReadAt  time.Duration
	// NoRTT: a TCP SYN-ACK/RST without per-probe identifier was credited to a later probe than the one that
	// caused it (the stated caveat); its RTT is necessarily measured against that later probe and is not asserted
	NoRTT bool
}

// RefInfo carries what the reference learnt on the way.
type RefInfo struct {
	SendAt     map[int]time.Duration // by TTL
	FirstSend  time.Duration
	LastSend   time.Duration
	RunFlow    string
	Accepted   []Event // genuine reads in order
	Unread     []Tag   // genuine packets that were never returned by Read
	DestTTL    int     // lowest TTL with a destination entry, 0 = none
	EndsEarly  bool    // a sack-unsupported packet was read
	LateSerial int     // serial: replies read after their own window (own label)
	NSent      int
	Ref        []RefHop
	Target     netip.Addr
}

func isDirectTCP(form string) bool { return form == "synack" || form == "rst" || form == "rstack" }

// Reference folds the accepted replies of sink/source pair idx into the expected hop list.
func Reference(sc *Scenario, o *Outcome, idx int) ([]RefHop, *RefInfo) {
	w := o.Wire
	info := &RefInfo{SendAt: map[int]time.Duration{}}
	sends := w.Sends(idx)
	type sendRec struct {
		at  time.Duration
		ttl int
	}
	var sendLog []sendRec
	for _, e := range sends {
		if e.Probe == nil {
			continue
		}
		t := int(e.Probe.TTL)
		if _, ok := info.SendAt[t]; !ok {
			info.SendAt[t] = e.At
		}
		if info.RunFlow == "" {
			info.RunFlow = FlowID(e.Probe, idx)
			info.Target = e.Probe.IP.Dst
		}
		sendLog = append(sendLog, sendRec{e.At, t})
	}
	info.NSent = len(sendLog)
	if len(sendLog) > 0 {
		info.FirstSend, info.LastSend = sendLog[0].at, sendLog[len(sendLog)-1].at
	}
	hops := make([]RefHop, 256)
	for i := range hops {
		hops[i].TTL = i
	}
	for _, e := range w.Reads(idx) {
		tg := e.Tag
		if tg.Class == "sack-unsupported" && tg.Flow == info.RunFlow {
			info.EndsEarly = true
			break
		}
		if tg.Class != "genuine" || tg.Flow != info.RunFlow {
			continue
		}
		t := tg.CreditTTL
		if isDirectTCP(tg.Form) {
			// no per-probe identifier: credited to the most recently sent probe at the instant it is read
			last := 0
			for _, s := range sendLog {
				if s.at <= e.At {
					last = s.ttl
				}
			}
			t = last
			// Paris mode gives every probe its own sequence number, so a SYN-ACK / RST-ACK does carry a per-probe
			// identifier (ack-1); the driver accepts it only while the probe it answers is still the last one sent
			if sc.Variant == "tcp-paris" && tg.Form != "rst" && tg.CausedBy != last {
				continue
			}
		}
		if t < sc.MinTTL || t > sc.MaxTTL {
			continue
		}
		st, sent := info.SendAt[t]
		if !sent || st > e.At {
			continue
		}
		info.Accepted = append(info.Accepted, e)
		dest := tg.IsDestForm && tg.FromTarget
		h := &hops[t]
		if !h.Present || (!h.IsDest && dest) {
			a, _ := netip.ParseAddr(tg.Responder)
			*h = RefHop{TTL: t, Present: true, Addr: a, IsDest: dest, RTT: e.Arr - st, TagID: tg.ID, ReadAt: e.At, NoRTT: isDirectTCP(tg.Form) && t != tg.CausedBy}
		}
		if sc.Serial() && dest {
			break // the serial engine stops at the first destination reply
		}
	}
	last := sc.MaxTTL
	for t := sc.MinTTL; t <= sc.MaxTTL; t++ {
		if hops[t].Present && hops[t].IsDest {
			last = t
			info.DestTTL = t
			break
		}
	}
	// serial engine stops sending after a destination answer; TTLs never probed beyond it are clipped anyway
	return hops[sc.MinTTL : last+1], info
}

func addrOf(b []byte) (netip.Addr, bool) {
	if len(b) == 0 {
		return netip.Addr{}, false
	}
	a, ok := netip.AddrFromSlice(b)
	return a.Unmap(), ok
}

// CheckShape is the C03 predicate on a successful run.
func CheckShape(sc *Scenario, o *Outcome) []Diff {
	var ds []Diff
	hops := o.Run.Hops
	if len(hops) == 0 {
		return []Diff{{"C03", "empty", "run has no hops"}}
	}
	if len(hops) > sc.MaxTTL-sc.MinTTL+1 {
		ds = append(ds, Diff{"C03", "too-long", fmt.Sprintf("%d hops for TTL range %d..%d", len(hops), sc.MinTTL, sc.MaxTTL)})
	}
	if last := hops[len(hops)-1]; last != nil && !last.IsDest && len(hops) != sc.MaxTTL-sc.MinTTL+1 {
		ds = append(ds, Diff{"C03", "short-without-dest", fmt.Sprintf("%d hops for TTL range %d..%d although no hop is the destination", len(hops), sc.MinTTL, sc.MaxTTL)})
	}
	for i, h := range hops {
		if h == nil {
			ds = append(ds, Diff{"C03", "nil-hop", fmt.Sprintf("hop index %d is nil", i)})
			continue
		}
		if h.TTL != sc.MinTTL+i {
			ds = append(ds, Diff{"C03", "ttl-sequence", fmt.Sprintf("hop index %d has TTL %d, want %d", i, h.TTL, sc.MinTTL+i)})
		}
		if h.IsDest && i != len(hops)-1 {
			ds = append(ds, Diff{"C03", "dest-not-last", fmt.Sprintf("hop TTL %d is marked destination but is not last (len %d)", h.TTL, len(hops))})
		}
		if len(h.IPAddress) == 0 && (h.IsDest || h.RTT != 0) {
			ds = append(ds, Diff{"C03", "empty-hop-with-data", fmt.Sprintf("unanswered hop TTL %d carries dest=%v rtt=%v", h.TTL, h.IsDest, h.RTT)})
		}
	}
	return ds
}

// CheckRun compares a successful run with the reference; the diffs are attributed to C01..C05.
func CheckRun(sc *Scenario, o *Outcome) ([]Diff, *RefInfo) {
	ref, info := Reference(sc, o, sc.runIdx())
	info.Ref = ref
	ds := CheckShape(sc, o)
	hops := o.Run.Hops
	// A length that differs from the reference always comes with a hop-level diff at the reference's or the
	// run's destination index (missing hop, unbacked hop or destination flag), which names the property
	// at fault for that hop; the length itself is C03's ("up to the lowest TTL answered by the destination"):
	// the reference ends at the lowest TTL for which a destination answer was read in time.
	if len(hops) != len(ref) && !info.EndsEarly {
		ds = append(ds, Diff{"C03", "length", fmt.Sprintf("%d entries from TTL %d, but the lowest TTL with a destination answer among the replies read is %d (0 = none; last TTL %d): want %d entries", len(hops), sc.MinTTL, info.DestTTL, sc.MaxTTL, len(ref))})
	}
	tol := sc.Poll()
	for i := 0; i < len(hops) && i < len(ref); i++ {
		h, r := hops[i], ref[i]
		if h == nil {
			continue
		}
		a, has := addrOf(h.IPAddress)
		// C04 invariant that needs no reference: whatever packet was used, a destination-marked hop carries the target's address
		if h.IsDest && has && info.Target.IsValid() && a != info.Target {
			ds = append(ds, Diff{"C04", "dest-flag-non-target", fmt.Sprintf("hop TTL %d is marked as the destination but its address %s is not the target %s", h.TTL, a, info.Target)})
		}
		switch {
		case has && isPoison(a):
			ds = append(ds, Diff{"C01", "poison", fmt.Sprintf("hop TTL %d carries poison address %s (a must-reject packet was accepted)", h.TTL, a)})
		case has && !r.Present:
			if h.IsDest {
				ds = append(ds, Diff{"C04", "dest-flag-unproven", fmt.Sprintf("hop TTL %d (%s) is marked as the destination although no reply in the form that proves arrival for this protocol was read for it", h.TTL, a)})
			}
			ds = append(ds, Diff{"C01", "unbacked-hop", fmt.Sprintf("hop TTL %d = %s is not backed by any genuine reply returned by the capture handle", h.TTL, a)})
		case !has && r.Present:
			ds = append(ds, Diff{"C02", "missing-hop", fmt.Sprintf("hop TTL %d empty but genuine reply #%d from %s was read at %v", r.TTL, r.TagID, r.Addr, r.ReadAt)})
		case has && r.Present:
			if a != r.Addr {
				ds = append(ds, Diff{"C01", "wrong-responder", fmt.Sprintf("hop TTL %d = %s, reference says %s (reply #%d)", h.TTL, a, r.Addr, r.TagID)})
				continue
			}
			if h.IsDest != r.IsDest {
				ds = append(ds, Diff{"C04", "dest-flag", fmt.Sprintf("hop TTL %d (%s) IsDest=%v, reference %v (reply #%d)", h.TTL, a, h.IsDest, r.IsDest, r.TagID)})
			}
			want := float64(r.RTT) / float64(time.Millisecond)
			if h.RTT < 0 || (!r.NoRTT && math.Abs(h.RTT-want) > float64(tol)/float64(time.Millisecond)) {
				ds = append(ds, Diff{"C05", "rtt", fmt.Sprintf("hop TTL %d RTT %.3f ms, probe sent at %v and first accepted reply #%d arrived at %v => %.3f ms (tolerance %v)", h.TTL, h.RTT, info.SendAt[r.TTL], r.TagID, info.SendAt[r.TTL]+r.RTT, want, tol)})
			}
		}
	}
	// C05, Paris mode: every probe has its own sequence number, so a SYN-ACK / RST-ACK names the probe it answers.
	// If the reply a destination hop was timed with (identified by its read instant) answers another probe than
	// the hop's own, the RTT was measured against a different probe's send time.
	if sc.Variant == "tcp-paris" {
		for _, h := range hops {
			if h == nil || !h.IsDest || len(h.IPAddress) == 0 {
				continue
			}
			st, ok := info.SendAt[h.TTL]
			if !ok {
				continue
			}
			var own, other *Event
			for _, e := range o.Wire.Reads(sc.runIdx()) {
				tg := e.Tag
				if tg.Class != "genuine" || tg.Flow != info.RunFlow || !isDirectTCP(tg.Form) {
					continue
				}
				got := time.Duration(h.RTT * float64(time.Millisecond))
				if d := (e.At - st) - got; d > -2*time.Microsecond && d < 2*time.Microsecond {
					ev := e
					// a bare RST carries no acknowledgement number: it names no probe and may explain any hop
					if tg.CausedBy == h.TTL || tg.Form == "rst" {
						own = &ev
					} else if other == nil {
						other = &ev
					}
				}
			}
			// only when no reply to the hop's own probe explains the value
			if own == nil && other != nil {
				ds = append(ds, Diff{"C05", "rtt-against-other-probe", fmt.Sprintf("hop TTL %d RTT %.3f ms was measured from the send of probe %d to the arrival (%v) of reply #%d, which answers probe %d (its ack names that probe's sequence number)", h.TTL, h.RTT, h.TTL, other.At, other.Tag.ID, other.Tag.CausedBy)})
			}
		}
	}
	// any must-reject packet that was read and whose address shows up is already caught (poison);
	// C02: genuine replies that arrived inside the listening budget must have been read
	ds = append(ds, checkMustRead(sc, o, info)...)
	return ds, info
}

// checkMustRead: every genuine reply that became available at least one poll interval before the
// end of its listening window must have been returned by Read (unless the run ended first).
func checkMustRead(sc *Scenario, o *Outcome, info *RefInfo) []Diff {
	w := o.Wire
	if len(w.Sources) <= sc.runIdx() || info.NSent == 0 {
		return nil
	}
	read := map[int]bool{}
	for _, e := range w.Reads(sc.runIdx()) {
		read[e.Tag.ID] = true
	}
	end := o.Start + o.Elapsed
	var ds []Diff
	for _, p := range w.all {
		if p.tag.Class != "genuine" || p.tag.Flow != info.RunFlow || read[p.tag.ID] {
			continue
		}
		arr := p.at.Sub(w.epoch)
		var must bool
		if sc.Serial() {
			st, ok := info.SendAt[p.tag.CausedBy]
			must = ok && arr <= st+sc.Timeout()-sc.Poll() && arr < end-sc.Poll()
			// the serial engine does not listen between a window's answer and the next probe, and stops at the destination
			if info.DestTTL != 0 {
				if dr, ok := info.SendAt[info.DestTTL]; ok && arr >= dr {
					must = false
				}
			}
			if must {
				// packets that arrive after the window's own first answer may legitimately sit unread until the next window
				must = firstForTTL(w, info.RunFlow, p)
			}
		} else {
			deadline := info.FirstSend + sc.Timeout() + time.Duration(sc.MaxTTL-sc.MinTTL+1)*sc.Delay()
			must = arr <= deadline-sc.Poll() && arr < end-sc.Poll()
		}
		if must {
			prop, sig := "C02", "unread-reply"
			if !w.FiltersOff && !w.Sources[sc.runIdx()].passes(p.data) {
				prop, sig = "C12", "filtered-reply"
			}
			ds = append(ds, Diff{prop, sig, fmt.Sprintf("genuine reply #%d (%s, TTL %d, %s) became available at %v but was never returned by Read (run ended %v)", p.tag.ID, p.tag.Form, p.tag.CreditTTL, p.tag.Responder, arr, end)})
			info.Unread = append(info.Unread, p.tag)
		}
	}
	return ds
}

// firstForTTL reports whether p is the earliest genuine packet caused by its probe.
func firstForTTL(w *Wire, flow string, p *pkt) bool {
	for _, q := range w.all {
		if q != p && q.tag.Class == "genuine" && q.tag.Flow == flow && q.tag.CausedBy == p.tag.CausedBy && (q.at.Before(p.at) || (q.at.Equal(p.at) && q.seq < p.seq)) {
			return false
		}
	}
	return true
}

// ---- C06: probe emission ----

func CheckEmission(sc *Scenario, o *Outcome) []Diff {
	var ds []Diff
	w := o.Wire
	add := func(sig, f string, a ...any) { ds = append(ds, Diff{"C06", sig, fmt.Sprintf(f, a...)}) }
	ds = append(ds, worldProblems(o.World, "C06")...)
	sends := w.Sends(sc.runIdx())
	var prev *Event
	seenTTL := map[int]bool{}
	idents := map[string]int{}
	var flow string
	// the first destination reply the reference accepted (not merely read: e.g. a Paris-mode SYN-ACK for an
	// earlier probe is read and legitimately ignored)
	var firstDestRead time.Duration = -1
	_, rinfo := Reference(sc, o, sc.runIdx())
	for _, e := range rinfo.Accepted {
		if e.Tag.IsDestForm && e.Tag.FromTarget {
			firstDestRead = e.At
			break
		}
	}
	after := 0
	wantTTL := sc.MinTTL
	for i := range sends {
		e := &sends[i]
		if e.PErr != "" {
			add("malformed", "probe #%d malformed: %s (% x)", i, e.PErr, e.Data)
			continue
		}
		p := e.Probe
		if p.Kind != sc.ProbeKind() {
			add("kind", "probe #%d is %s, variant %s sends %s", i, p.Kind, sc.Variant, sc.ProbeKind())
		}
		if int(p.TTL) != wantTTL {
			add("ttl-order", "probe #%d has TTL %d, expected %d (first TTL %d, consecutive, no repeats)", i, p.TTL, wantTTL, sc.MinTTL)
		}
		wantTTL = int(p.TTL) + 1
		if seenTTL[int(p.TTL)] {
			add("ttl-repeat", "TTL %d probed twice", p.TTL)
		}
		seenTTL[int(p.TTL)] = true
		if int(p.TTL) < sc.MinTTL || int(p.TTL) > sc.MaxTTL {
			add("ttl-range", "probe TTL %d outside %d..%d", p.TTL, sc.MinTTL, sc.MaxTTL)
		}
		if prev != nil && e.At-prev.At < sc.Delay() {
			add("pacing", "probes TTL %d and %d only %v apart (delay %v)", prev.Probe.TTL, p.TTL, e.At-prev.At, sc.Delay())
		}
		if flow == "" {
			flow = p.FlowKey()
		} else if p.FlowKey() != flow {
			add("flow-changed", "probe TTL %d flow %s differs from %s", p.TTL, p.FlowKey(), flow)
		}
		if j, dup := idents[p.Ident()]; dup {
			if sc.Variant == "tcp-paris" && sc.SeqMode == "" {
				// 32-bit random collision tolerated (counted by the caller)
			} else {
				add("ident-shared", "probes TTL %d and %d share identifier %s", j, p.TTL, p.Ident())
			}
		}
		idents[p.Ident()] = int(p.TTL)
		// destination argument of WriteTo
		ap, err := netip.ParseAddrPort(e.Dst)
		if err != nil || ap.Addr().Unmap() != p.IP.Dst {
			add("dst-arg", "WriteTo address %s differs from packet destination %s", e.Dst, p.IP.Dst)
		} else if p.Kind != "icmp-echo" && ap.Port() != p.DPort {
			add("dst-arg-port", "WriteTo port %d differs from packet destination port %d", ap.Port(), p.DPort)
		}
		if ta, err := netip.ParseAddr(sc.Target); sc.Variant != "sack" && (err != nil || p.IP.Dst != ta.Unmap()) {
			add("target", "probe goes to %s, target is %s", p.IP.Dst, sc.Target)
		}
		if p.Kind != "icmp-echo" && sc.Variant != "sack" && int(p.DPort) != sc.Port {
			add("target-port", "probe goes to port %d, target port is %d", p.DPort, sc.Port)
		}
		if firstDestRead >= 0 && e.At > firstDestRead {
			after++
		}
		prev = e
	}
	seenDest := o.Run != nil && len(o.Run.Hops) > 0 && o.Run.Hops[len(o.Run.Hops)-1] != nil && o.Run.Hops[len(o.Run.Hops)-1].IsDest
	for _, m := range w.BufMutated {
		add("buffer-reused-during-write", "%s", m)
	}
	if after > 1 && seenDest {
		add("send-after-dest", "%d probes emitted (strictly, on the virtual clock) after the instant the first destination reply was returned (%v); one in flight is allowed", after, firstDestRead)
	}
	if o.Run != nil && len(sends) > 0 && sends[0].Probe != nil {
		p := sends[0].Probe
		if a, ok := addrOf(o.Run.Source.IPAddress); !ok || a != p.IP.Src {
			add("reported-source", "run.Source %v differs from wire source %s", o.Run.Source.IPAddress, p.IP.Src)
		}
		if a, ok := addrOf(o.Run.Destination.IPAddress); !ok || a != p.IP.Dst {
			add("reported-dest", "run.Destination %v differs from wire destination %s", o.Run.Destination.IPAddress, p.IP.Dst)
		}
		if p.Kind != "icmp-echo" {
			if o.Run.Source.Port != p.SPort {
				add("reported-sport", "run.Source.Port %d differs from wire source port %d", o.Run.Source.Port, p.SPort)
			}
			if o.Run.Destination.Port != p.DPort {
				add("reported-dport", "run.Destination.Port %d differs from wire destination port %d", o.Run.Destination.Port, p.DPort)
			}
		}
	}
	return ds
}

func sortedKeys[V any](m map[string]V) []string {
	out := make([]string, 0, len(m))
	for k := range m {
		out = append(out, k)
	}
	sort.Strings(out)
	return out
}

// worldProblems reports probes that did not belong to the connection they were sent on (a SACK run that
// took its sequence numbers from somewhere else than its own handshake).
func worldProblems(w *NetWorld, prop string) []Diff {
	if w == nil {
		return nil
	}
	var ds []Diff
	for i, p := range w.Problems {
		if i == 3 {
			break
		}
		ds = append(ds, Diff{prop, "probe-outside-connection", p})
	}
	return ds
}
