package harness

// C15: a multi-query request is all-or-error with exact counts.

import (
	"os"
	"encoding/json"
	"strings"

	"errors"
	"fmt"
	"github.com/DataDog/datadog-traceroute/result"
	"math"
	"sort"
	"testing"

	"pgregory.net/rapid"
)

type c15Case struct {
	Rq          *Request `json:"request"`
	FailSinks   []int    `json:"fail_sinks,omitempty"`   // sink handle indices whose first send fails
	FailReads   []int    `json:"fail_sources,omitempty"` // source handle indices whose k-th read fails
	ReadK       int      `json:"read_k,omitempty"`
	TimeoutLike bool     `json:"timeout_like,omitempty"` // failed sends look like OS timeouts
}

func genC15(rt *rapid.T) *c15Case {
	c := &c15Case{Rq: &Request{}}
	p := &c.Rq.P
	p.Protocol = oneOf(rt, "proto", "udp", "icmp", "tcp")
	p.Hostname = "93.184.216.34"
	if p.Protocol != "tcp" && rapid.Bool().Draw(rt, "v6") {
		p.Hostname = "2001:db8:ffff::1"
	}
	p.Port = 443
	p.MinTTL = rapid.IntRange(1, 2).Draw(rt, "min")
	p.MaxTTL = p.MinTTL + rapid.IntRange(1, 5).Draw(rt, "span")
	p.TimeoutMs = oneOf(rt, "timeout", 40, 120)
	p.DelayMs = oneOf(rt, "delay", 0, 1, 5)
	p.Queries = rapid.IntRange(0, 5).Draw(rt, "queries")
	p.E2e = rapid.IntRange(0, 10).Draw(rt, "e2e")
	p.ReverseDns = rapid.Bool().Draw(rt, "rdns")
	p.PublicIP = rapid.Bool().Draw(rt, "pubip")
	c.Rq.Fetcher = oneOf(rt, "fetcher", "", "", "error", "slow")
	// the caller's context may end while the request is still pacing its e2e probes
	if p.E2e >= 2 && oneOf(rt, "cancel", false, false, true) {
		c.Rq.CancelAtUs = int64(rapid.IntRange(1, 1000*p.TimeoutMs*p.MaxTTL).Draw(rt, "cancel_at_us"))
	}
	// a third through the HTTP handler (first TTL and send delay are fixed there: 1 and 50 ms)
	if oneOf(rt, "http", false, false, true) {
		c.Rq.HTTP = true
		p.MinTTL, p.DelayMs = 1, 50
		// the counts arrive as text: plain, zero-padded or signed decimals (008 is eight)
		p.NumStyle = oneOf(rt, "num_style", "", "", "zeros", "plus")
		if c.Rq.CancelAtUs > 0 {
			c.Rq.CancelAtUs = 0
		}
	}
	c.Rq.DNSDefault = DNSScript{Names: []string{"h.example."}, DelayMs: oneOf(rt, "dns_delay", 0, 30)}
	// per-flow worlds with different shapes and durations (completion orders)
	nScripts := rapid.IntRange(1, 4).Draw(rt, "n_scripts")
	for i := 0; i < nScripts; i++ {
		s := FlowScript{DestDist: oneOf(rt, fmt.Sprintf("s%d_dest", i), 0, p.MinTTL, p.MaxTTL, p.MaxTTL-1, p.MaxTTL+1)}
		s.Default = HopSpec{DelayUs: int64(rapid.IntRange(0, p.TimeoutMs*1000/4).Draw(rt, fmt.Sprintf("s%d_delay", i))), Silent: oneOf(rt, fmt.Sprintf("s%d_silent", i), false, false, true)}
		c.Rq.Scripts = append(c.Rq.Scripts, s)
	}
	total := p.Queries + p.E2e
	if total > 0 && rapid.IntRange(0, 9).Draw(rt, "inject") < 7 {
		n := rapid.IntRange(0, total).Draw(rt, "n_fail")
		idx := rapid.Permutation(seq(total)).Draw(rt, "fail_perm")
		// failures at different moments of the request: a failed first send ends a run at once, a failed k-th read
		// ends it some polls later. A fired fault always belongs to a run of its own (the first one that fires
		// ends the run, so a second fault on the same run never fires).
		mixed := rapid.Bool().Draw(rt, "mixed_kinds")
		onReads := rapid.Bool().Draw(rt, "fail_on_reads")
		for i := 0; i < n; i++ {
			r := onReads
			if mixed {
				r = rapid.Bool().Draw(rt, fmt.Sprintf("fail%d_on_read", i))
			}
			if r {
				c.FailReads = append(c.FailReads, idx[i])
			} else {
				c.FailSinks = append(c.FailSinks, idx[i])
			}
		}
		sort.Ints(c.FailSinks)
		sort.Ints(c.FailReads)
		c.ReadK = rapid.IntRange(1, 3).Draw(rt, "read_k")
		c.TimeoutLike = rapid.Bool().Draw(rt, "timeout_like")
	}
	return c
}

func seq(n int) []int {
	out := make([]int, n)
	for i := range out {
		out[i] = i
	}
	return out
}

func checkC15(t *testing.T, c *c15Case, rec *Recorder) []Diff {
	rq := *c.Rq
	rq.Faults = nil
	for _, h := range c.FailSinks {
		// a failed send may be a timeout of the operating system's (it then matches the standard deadline errors
		// although nobody's context has ended)
		cl := "fatal"
		if c.TimeoutLike {
			cl = "fatal-timeout"
		}
		rq.Faults = append(rq.Faults, Fault{Kind: "sink", Handle: h, Op: "WriteTo", K: 1, Class: cl})
	}
	k := c.ReadK
	if k < 1 {
		k = 1
	}
	for _, h := range c.FailReads {
		rq.Faults = append(rq.Faults, Fault{Kind: "source", Handle: h, Op: "Read", K: k, Class: "fatal"})
	}
	o := RunRequest(t, &rq)
	p := rq.P
	var ds []Diff
	add := func(sig, f string, a ...any) { ds = append(ds, Diff{"C15", sig, fmt.Sprintf(f, a...)}) }
	labels := []string{"protocol:" + p.Protocol, fmt.Sprintf("queries:%d", p.Queries), fmt.Sprintf("http:%v", rq.HTTP)}
	if rq.HTTP && o.Err == nil && o.Panic == "" && o.Deadlock == "" {
		var res result.Results
		if err := json.Unmarshal(o.Body, &res); err != nil {
			add("http-body", "status 200 but the body is not a result document: %v", err)
			rec.Case(scenarioKey(c), false, nil, labels...)
			return ds
		}
		o.Res = &res
	}
	// over HTTP the error chain is flattened into text
	exposes := func(err error, s *InjectedErr) bool {
		if rq.HTTP {
			return strings.Contains(err.Error(), s.Error())
		}
		return errors.Is(err, s)
	}
	if o.Panic != "" || o.Deadlock != "" || o.Wire == nil {
		rec.Case(scenarioKey(c), false, nil, append(labels, "other:crash")...)
		if os.Getenv("VERIF_DEBUG_CRASH") != "" {
			fmt.Fprintf(os.Stderr, "DEBUGCRASH panic=%.300q deadlock=%.600q\n", o.Panic, o.Deadlock)
		}
		return []Diff{{"C09", "crash", o.Panic + o.Deadlock}}
	}
	// which runs failed: a handle pair fails if any of its faults fired; faults are per handle index, and a
	// run owns exactly one sink and one source, but sink i and source i need not belong to the same run:
	// count failed runs as the number of distinct fired sentinels' owners via the ledger is not possible,
	// so the generator keeps FailSinks and FailReads disjoint in index and the oracle bounds the count.
	fired := len(o.Wire.Fired)
	cancelled := rq.CancelAtUs > 0 && us(rq.CancelAtUs) <= o.Elapsed
	if cancelled {
		labels = append(labels, "cancelled-during-request")
	}
	if fired == 0 {
		labels = append(labels, "no-failure")
		if o.Err != nil {
			// a cancelled context may legitimately fail runs that honour it (icmp); otherwise nothing failed
			if !cancelled {
				add("error-without-failure", "no run or probe failed but the request returned an error: %v", o.Err)
			}
		} else {
			if got := len(o.Res.Traceroute.Runs); got != p.Queries {
				add("run-count", "%d traceroute runs in the result, %d requested", got, p.Queries)
			}
			if got := len(o.Res.E2eProbe.RTTs); got != p.E2e {
				add("e2e-count", "%d end-to-end samples in the result, %d requested", got, p.E2e)
			}
			wantIP := p.PublicIP && rq.Fetcher != "error"
			if (o.Res.Source.PublicIP != "") != wantIP {
				add("public-ip", "public IP %q, fetcher %q, requested %v", o.Res.Source.PublicIP, rq.Fetcher, p.PublicIP)
			}
			ids := map[string]bool{}
			for _, r := range o.Res.Traceroute.Runs {
				if r.RunID == "" || ids[r.RunID] {
					add("run-id", "run id %q empty or duplicated", r.RunID)
				}
				ids[r.RunID] = true
			}
			// e2e samples: the multiset must equal what the world scripted for the single-probe flows
			if p.MinTTL < p.MaxTTL && !cancelled {
				var want []float64
				// one sink per e2e probe (two sequential probes may be handed the same ephemeral port by the
				// kernel and then share a flow key, so flows cannot be counted)
				for h, probes := range sinkProbes(o.Wire) {
					if len(probes) != 1 || int(probes[0].TTL) != p.MaxTTL {
						continue
					}
					fs := o.World.FlowAt(probes[0], h)
					if fs == nil {
						continue
					}
					sc := o.World.script(fs.idx)
					h := sc.Hop(p.MaxTTL)
					if sc.DestDist > 0 && p.MaxTTL >= sc.DestDist && !h.Silent {
						want = append(want, float64(h.DelayUs)/1000)
					} else {
						want = append(want, 0)
					}
				}
				got := append([]float64(nil), o.Res.E2eProbe.RTTs...)
				sort.Float64s(want)
				sort.Float64s(got)
				if len(want) == len(got) {
					for i := range want {
						if math.Abs(want[i]-got[i]) > 1e-6 {
							add("e2e-samples", "end-to-end RTT samples %v differ from the scripted destination delays %v (0 = no answer)", got, want)
							break
						}
					}
				} else {
					add("e2e-flows", "%d single-probe flows on the wire, %d samples", len(want), len(got))
				}
			}
		}
	} else {
		labels = append(labels, "some-failure")
		if o.Err == nil || o.Res != nil {
			add("partial-success", "%d injected failures fired but the request returned a result (err=%v)", fired, o.Err)
		} else {
			// a run ends at its first failure; when the scheduler gave one run a failing sink and a failing source
			// (sink i and source i need not belong to the same run), either failure may be the one it reports
			shown := map[int]bool{}
			for _, s := range o.Wire.Fired {
				if exposes(o.Err, s) {
					shown[o.Wire.OwnerOf(s)] = true
				}
			}
			for _, s := range o.Wire.Fired {
				if !shown[o.Wire.OwnerOf(s)] {
					add("failure-hidden", "%v fired but is not reachable through the returned error: %v", s, o.Err)
				}
			}
			if j, ok := o.Err.(interface{ Unwrap() []error }); ok {
				n := len(j.Unwrap())
				// every failed run contributes exactly one member
				// a cancelled context can fail further runs (those that honour it) on top of the injected failures
				owners := map[int]bool{}
				for _, s := range o.Wire.Fired {
					owners[o.Wire.OwnerOf(s)] = true
				}
				if n != len(owners) && !(cancelled && n > len(owners)) {
					add("failure-count", "joined error has %d members, %d runs/probes failed", n, fired)
				}
			} else if fired > 1 && !rq.HTTP {
				add("failure-count", "%d runs/probes failed but the error is not a join: %v", fired, o.Err)
			}
		}
	}
	nt := p.Queries+p.E2e >= 2 && fired > 0 && fired < p.Queries+p.E2e && len(rq.Scripts) >= 2
	rec.Case(scenarioKey(c), nt, map[string]any{"case": c, "fired": fired, "err": fmt.Sprint(o.Err)}, labels...)
	return ds
}

func TestC15(t *testing.T) {
	rec := NewRecorder("C15", "C15", "rapid: RunTraceroute (a third of the cases through the HTTP handler, explicit zero counts included) with 0..5 runs and 0..8 e2e probes (udp/icmp/tcp, v4/v6) over per-flow worlds of different shape and duration, an arbitrary subset of runs/probes failing through per-handle injected faults (first send or k-th read, each with its own sentinel), public-IP fetcher ok/error/slow, reverse DNS on/off; oracle: no failure => success with exactly the requested number of runs and samples (sample multiset == scripted destination delays, 0 = unanswered), public IP iff the fetcher succeeded; >=1 failure => (nil, err), every fired sentinel reachable with errors.Is and the join has exactly one member per failed run; non-trivial = >=2 concurrent runs with different worlds and a non-empty proper subset failing")
	RunProp(t, rec, genC15, checkC15)
}
