"""Human-written text for MANIFEST.json entries."""
SIM = "Trusted base: the harness itself (simulated wire, independent codec, world model, reference fold), testing/synctest's virtual clock, x/net/bpf VM as the model of the kernel's classic BPF; the seam is below packets.NewSourceSink so raw sockets/AF_PACKET themselves are only covered by C13. Exploration establishes absence only inside the parts marked exhaustive."

META = {
    "C01": {"technique": "property-based testing (rapid) + exhaustive lattice sweep; oracle: ledger-driven reference + poison addresses + noisy-vs-clean differential",
            "text": "Generated scenarios run the unmodified protocol entry points of all 7 variants over a simulated shared wire on a virtual clock; every reported hop must be explained by a genuine reply the capture handle returned, must-reject perturbations come from poison addresses, and the same scenario without noise must give the same hops. Exploration is the right level: the input space (packets x orders x configs) is unbounded; the finite lattice sweep is enumerated completely.",
            "note": SIM},
    "C02": {"technique": "property-based testing (rapid) + exhaustive form x variant x TTL x ISN product; oracle: reference model over delivered replies",
            "text": "Every reply form of the device catalogue is generated for every variant; each genuine reply that became available inside the listening budget must have been read and must yield its hop with the scripted responder. The finite product form x variant x strict/relaxed x TTL range x ISN is enumerated completely.",
            "note": SIM},
    "C03": {"technique": "property-based testing (rapid) with scripted driver (engine level) and simulated wire (protocol level); shape predicate",
            "text": "Shape predicate (consecutive TTLs from first, never empty, only last may be destination, full range when no destination) over protocol-level runs of all variants and engine-level runs with a scripted driver for generated answer sets and TTL ranges.",
            "note": SIM},
    "C04": {"technique": "property-based testing (rapid); oracle: destination flag <=> reference-selected reply is tagged proof-of-arrival from the target",
            "text": "Scenarios enriched with destination-form replies from the wrong place and time-exceeded sent by the target; the destination flag of every hop and GetDestinationHop must agree with the world's ground-truth tags.",
            "note": SIM},
    "C05": {"technique": "property-based testing (rapid) on a virtual clock; oracle: RTT == arrival of first accepted reply - send instant of the same probe (tolerance one poll)",
            "text": "Per-hop delay assignments with duplicates and overtaking at production-scale timeouts; the virtual clock makes the expected RTT exact so any measurement against another probe's send time or a later duplicate shows up.",
            "note": SIM + " Serial engine with send delay > poll is restricted to replies inside their own window (the engine does not listen between windows)."},
    "C06": {"technique": "property-based testing (rapid) + enumeration of all 255 TTLs; oracle: independent codec validity + ledger invariants",
            "text": "Every packet handed to Sink.WriteTo is decoded and verified by a codec that shares no code with gopacket (lengths, checksums incl. pseudo-headers, TTL, flags), and the ledger is checked for order, pacing, flow constancy, identifier uniqueness, stop-after-destination and reported endpoints.",
            "note": SIM},
    "C07": {"technique": "property-based testing (rapid) + bounded exhaustive enumeration of delivery sequences/time slots; oracle: reference fold over the log of what ReceiveProbe returned",
            "text": "The parallel engine is driven by a scripted driver whose deliveries carry explicit virtual time stamps in slots around every send instant and the deadline (+-1 ns forces both orders of send vs deliver). Output must equal the fold first-wins/destination-overrides/clip-at-lowest-destination over the returned log, every delivery due before the deadline must be taken, and the sender must stop after a destination reply. The space up to 3 TTLs x 3 deliveries x all slots is enumerated completely in the thorough tier.",
            "note": "Trusted base: scripted driver and reference fold in the harness; testing/synctest scheduling (goroutine order at equal virtual instants is chosen by the Go scheduler, the +-1 ns slots are what forces the orders)."},
    "C09": {"technique": "property-based testing (rapid, structure-aware mutation) + exhaustive truncation and TCP-option sweeps + native coverage-guided go fuzzing; oracle: no crash/abort + differential against the noise-free run",
            "text": "Hostile packets are derived from the genuine replies of the running scenario (or are arbitrary bytes) and injected at a drawn instant of a run of every variant; the run must neither crash nor abort and packets the independent codec judges malformed must not change the result. Every truncation length of every reply form and a product of TCP option kinds x declared lengths are enumerated completely; the thorough tier adds 8 native fuzz targets (7 variants + the frame parser alone).",
            "note": SIM + " The SACK-specific permitted end is recognised by the model as: a segment on the probed connection's tuple was read AND the tool reported NotSupportedError. Leniencies of the decoder in use (length field 0 or beyond the capture, quoted version nibble) are classified as structurally valid and not asserted."},
}
NOT_APPLICABLE = []
NOTES = "See DESIGN.md. All checks rebuild the harness against /repo's current working tree; quick tier uses a fixed rapid seed derived from VERIF_SEED and replays /verif/corpus first; thorough tier shards seeds over 16 processes and adds native fuzzing where registered."
