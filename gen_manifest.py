#!/usr/bin/env python3
"""Regenerates MANIFEST.json from checks_config.py and manifest_meta.py (keeps it valid at all times)."""
import json, subprocess, sys
sys.path.insert(0, "/verif")
from checks_config import PROPS, LEVELS
from manifest_meta import META, NOT_APPLICABLE, NOTES

hook_commits = subprocess.run(["git", "-C", "/repo", "log", "--format=%H %s", "--grep=^verif hooks"], stdout=subprocess.PIPE, text=True).stdout.strip().splitlines()
checks = []
for pid in sorted(PROPS):
    m = META[pid]
    checks.append({
        "property_id": pid,
        "quick_cmd": "./check %s --tier quick" % pid,
        "thorough_cmd": "./check %s --tier thorough" % pid,
        "evidence_file": "/verif/evidence/%s.json" % pid,
        "replay_cmd_template": "./check %s --replay {path}" % pid,
        "engine": m.get("engine", "harness"),
        "level_claimed": {"category": LEVELS.get(pid, "exploration"), "text": m["text"], "design_ref": "DESIGN.md section 5, %s" % pid},
        "level_note": m["note"],
        "technique": m["technique"],
    })
all_ids = [json.loads(l)["id"] for l in open("/verif/properties.jsonl")]
na = list(NOT_APPLICABLE)
for i in all_ids:
    if i not in PROPS and not any(x["property_id"] == i for x in na):
        na.append({"property_id": i, "reason": "not claimed yet: its check is designed (DESIGN.md section 5) but not built and validated at this commit"})
manifest = {
    "version": 1,
    "setup_cmd": "./check --setup",
    "hooks": {
        "guard": "Go build tag 'verif'",
        "enable": "go test -c -tags verif (the driver ./check rebuilds /verif/harness against /repo's working tree on every invocation)",
        "baseline_off_cmd": "cd /repo && GOFLAGS=-mod=mod go test -vet=off -count=1 -timeout 25m ./...",
        "source_commits": [l.split()[0] for l in hook_commits],
        "add_only": True,
    },
    "engines": [
        {"name": "c13_kernel.py", "path": "/verif/c13_kernel.py", "serves_properties": ["C13"], "kind_free_text": "python3 orchestration of ip-netns topologies around the CLI built from /repo"},
        {"name": "harness", "path": "/verif/harness", "serves_properties": sorted(p for p in PROPS if p != "C13"), "kind_free_text": "Go test binary: pgregory.net/rapid generators + native go fuzzing over a simulated wire (testing/synctest virtual clock, real classic-BPF programs in the x/net/bpf VM, independent packet codec); driver /verif/check (python3)"},
    ],
    "checks": checks,
    "notes": NOTES,
    "not_applicable": na,
}
json.dump(manifest, open("/verif/MANIFEST.json", "w"), indent=1)
print("wrote MANIFEST.json with", len(checks), "checks;", len(na), "not_applicable")
